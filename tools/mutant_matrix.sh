#!/bin/bash
# usage: mutant_matrix.sh "<mutant ...>" "<check ...>"  -> one line per (mutant, check): caught / missed / trouble
cd /verif
for m in $1; do
  f=tools/mutants/$m
  for p in $2; do
    out=$(timeout 900 tools/mutant.sh $f bin/check $p --tier quick 2>&1); rc=$?
    cls=$(echo "$out" | grep -m1 "class=" | sed 's/.*class=\([^ ]*\).*/\1/')
    case $rc in 0) r=missed;; 1) r="CAUGHT $cls";; *) r="trouble($rc) $(echo "$out" | grep -m1 -i "trouble\|compile" | cut -c1-120)";; esac
    echo "$m $p $r"
  done
done
