#!/bin/bash
# Determinism protocol (DESIGN.md 7.1): for every claimed property run the same (seed, run range) in many fresh processes -
# sequentially and 16 at a time, under GOMAXPROCS env 1/4/16, plain and (where the property has an HB variant) under -race -
# and compare the per-run event-log hashes. Prints one line per property; exit 1 on any divergence.
set -u
cd /verif
tools/build_worker.sh >/dev/null && tools/build_worker.sh race >/dev/null || exit 2
N=${N:-250}
SEEDS=${SEEDS:-"11 12 13"}
D=/verif/.build/determinism; rm -rf $D; mkdir -p $D
rc=0
for p in ${PROPS:-C01 C02 C03 C04 C05 C06 C07 C08 C09 C11 C12 C13 C14 C15 C20}; do
  bad=0; procs=0
  for seed in $SEEDS; do
    i=0
    # 2 sequential + 16 concurrent processes with varied GOMAXPROCS env
    for gmp in 1 16; do
      i=$((i+1)); GOMAXPROCS=$gmp .build/worker -prop $p -seed $seed -n $N -hashes -maxviol 1000000 -out $D/$p-$seed-$i.json 2>/dev/null
    done
    for k in $(seq 1 16); do
      i=$((i+1)); gmp=$(( (k%3==0)?1:((k%3==1)?4:16) ))
      GOMAXPROCS=$gmp .build/worker -prop $p -seed $seed -n $N -hashes -maxviol 1000000 -out $D/$p-$seed-$i.json 2>/dev/null &
    done
    wait
    ref=$(jq -cS .hashes $D/$p-$seed-1.json | md5sum)
    for f in $D/$p-$seed-*.json; do
      procs=$((procs+1))
      [ "$(jq -cS .hashes $f | md5sum)" = "$ref" ] || bad=$((bad+1))
    done
  done
  hb=""
  if [ -n "$(.build/worker -prop $p -info | jq -r 'select(.quick_hb>0) | .id')" ]; then
    hbbad=0; hbprocs=0
    for seed in $SEEDS; do
      for k in 1 2 3 4 5 6; do
        GORACE="halt_on_error=0 log_path=$D/race-$p-$seed-$k" VERIF_RACELOG=$D/race-$p-$seed-$k .build/worker-race -prop $p -seed $seed -n 80 -hashes -out $D/hb-$p-$seed-$k.json 2>/dev/null &
      done
      wait
      ref=$(jq -cS .hashes $D/hb-$p-$seed-1.json | md5sum)
      for f in $D/hb-$p-$seed-*.json; do hbprocs=$((hbprocs+1)); [ "$(jq -cS .hashes $f | md5sum)" = "$ref" ] || hbbad=$((hbbad+1)); done
    done
    hb=" | HB mode: $hbprocs processes, $hbbad diverging"
    [ $hbbad -eq 0 ] || rc=1
  fi
  echo "$p: $procs processes x $N runs, $bad diverging$hb"
  [ $bad -eq 0 ] || rc=1
done
rm -rf $D
exit $rc
