import json,sys,subprocess,re
name, checks, note = sys.argv[1], sys.argv[2].split(), sys.argv[3]
d="/verif/seeded/"+name
m=json.load(open(d+"/meta.json"))
m["first_run"]=dict(m["what_i_ran"]["result"].get("checks",{}))
for p in checks:
    out=subprocess.run(["/verif/tools/mutant.sh", d+"/patch.diff","bin/check",p,"--tier","quick"],capture_output=True,text=True)
    cls=re.search(r"class=(\S+)", out.stdout)
    r={0:"missed",1:"caught (%s)"%(cls.group(1) if cls else "?")}.get(out.returncode,"trouble(%d)"%out.returncode)
    m["what_i_ran"]["result"].setdefault("checks",{})[p]=r
    print(name,p,r)
m["note"]=note
json.dump(m,open(d+"/meta.json","w"),indent=1)
