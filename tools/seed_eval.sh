#!/bin/bash
# usage: seed_eval.sh <name> <worktree-of-subagent> "<checks>"
# Confirms a sub-agent's breaking change independently (fresh worktree of /repo: suite passes with the change, the
# demonstration fails with it and passes without it), stores it under /verif/seeded/<name>/ and runs the named checks on it.
set -u
NAME=$1; SRC=$2; CHECKS=$3
OUT=/verif/seeded/$NAME; mkdir -p $OUT
( cd $SRC && git diff -- . ':!zz_demo_test.go' ) > $OUT/patch.diff
cp $SRC/zz_demo_test.go $OUT/zz_demo_test.go
V=/tmp/sa/verify-$NAME
git -C /repo worktree add -q --detach $V HEAD || exit 2
gt() { ( cd $V && env -u GOTOOLCHAIN -u GOFLAGS -u GOPROXY go test -mod=mod -vet=off -count=1 "$@" 2>&1 ); }
cp $OUT/zz_demo_test.go $V/
demo_without=$(gt -run 'TestDemo' . | tail -1)
git -C $V apply $OUT/patch.diff || { echo "patch does not apply"; git -C /repo worktree remove --force $V; exit 2; }
demo_with=$(gt -run 'TestDemo' . | grep -m1 -E "^(--- FAIL|FAIL|ok)" )
rm $V/zz_demo_test.go
suite=$(gt ./... | grep -v "no test files" | awk '{print $1}' | sort | uniq -c | tr '\n' ' ')
git -C /repo worktree remove --force $V
echo "demo without change: $demo_without"
echo "demo with change:    $demo_with"
echo "suite with change:   $suite"
res=""
for p in $CHECKS; do
  r=$(/verif/tools/mutant.sh $OUT/patch.diff /verif/bin/check $p --tier quick 2>&1); rc=$?
  cls=$(echo "$r" | grep -m1 "class=" | sed 's/.*class=\([^ ]*\).*/\1/')
  case $rc in 0) x="missed";; 1) x="caught ($cls)";; *) x="trouble($rc)";; esac
  echo "check $p: $x"
  res="$res\"$p\": \"$x\", "
done
tr -d "\t" <<< "{\"demo_without_change\": \"$demo_without\", \"demo_with_change\": \"$demo_with\", \"suite_with_change\": \"$suite\", \"checks\": {${res%, }}}" > $OUT/eval.json
