#!/bin/bash
# usage: mutant.sh <mutant.py|patch.diff|x.rdiff> <command...>   applies the change to /repo (.rdiff: reverse-applies a commit),
# runs the command, restores /repo
M=$(realpath "$1"); shift
git -C /repo diff --quiet || { echo "repo dirty"; exit 3; }
case "$M" in
  *.py) python3 "$M" /repo || { git -C /repo checkout -- .; exit 3; } ;;
  *.rdiff) git -C /repo apply -R "$M" || exit 3 ;;
  *) git -C /repo apply "$M" || exit 3 ;;
esac
( cd /repo && env -u GOTOOLCHAIN -u GOFLAGS -u GOPROXY go build ./... ) || { echo "MUTANT DOES NOT COMPILE"; git -C /repo checkout -- .; exit 3; }
"$@"; rc=$?
git -C /repo checkout -- . ; git -C /repo clean -fdq
exit $rc
