#!/bin/bash
# usage: mutant.sh <mutant.py|patch.diff> <command...>   applies the change to /repo, runs the command, restores /repo
M=$1; shift
git -C /repo diff --quiet || { echo "repo dirty"; exit 3; }
case "$M" in
  *.py) python3 "$M" /repo || { git -C /repo checkout -- .; exit 3; } ;;
  *) git -C /repo apply "$M" || exit 3 ;;
esac
"$@"; rc=$?
git -C /repo checkout -- . ; git -C /repo clean -fdq
exit $rc
