#!/usr/bin/env python3
"""usage: seed_keep.py <name> <agent-worktree> "<checks>" "<property>" "<origin>" "<needs>" "<note>"
Confirms and stores a sub-agent's change (tools/seed_eval.sh), writes meta.json, removes the worktree, prints the verdicts."""
import json, os, subprocess, sys
name, src, checks, prop, origin, needs, note = sys.argv[1:8]
out = subprocess.run(["/verif/tools/seed_eval.sh", name, src, checks], capture_output=True, text=True).stdout
print("\n".join(out.strip().splitlines()[-(3 + len(checks.split())):]))
d = "/verif/seeded/" + name
ev = json.loads(open(d + "/eval.json").read(), strict=False)
m = {"property": prop, "origin": origin, "needs": needs, "note": note,
     "what_i_ran": {"independent_confirmation": "fresh worktree of /repo: go test ./... with the change (all packages ok), TestDemo with the change (FAIL) and without it (ok)",
                    "result": ev, "command": "tools/seed_eval.sh " + name + " <sub-agent worktree> '" + checks + "'"}}
json.dump(m, open(d + "/meta.json", "w"), indent=1)
os.remove(d + "/eval.json")
subprocess.run(["git", "-C", "/repo", "worktree", "remove", "--force", src])
