#!/bin/bash
# Development helper: builds the worker (plain, and -race with "race" as first argument) exactly as the driver does:
# scratch copy of /repo's working tree + mechanical yield insertion + harness built against that copy.
set -e
export GOTOOLCHAIN=local GOFLAGS=-mod=mod GOPROXY=off
GO=go1.26.8
B=/verif/.build
S=$B/src-dev
mkdir -p $S/fox
rsync -a --delete --exclude .git /repo/ $S/fox/
cd /verif/harness
$GO build -o $B/instrument ./cmd/instrument
$B/instrument $S/fox >/dev/null
sed "s#=> /repo#=> $S/fox#" go.mod > $S/go.mod
cp go.sum $S/go.sum
if [ "$1" = race ]; then
  $GO build -modfile=$S/go.mod -tags verif -race -o $B/worker-race ./cmd/worker
else
  $GO build -modfile=$S/go.mod -tags verif -o $B/worker ./cmd/worker
fi
