#!/usr/bin/env python3
"""Regenerates /verif/MANIFEST.json from the table below (kept in one place so the manifest is always valid)."""
import json, subprocess, sys

HOOK_COMMITS = ["c491b67", "df520a4", "6c4e0a6", "dde1ea0"]

NA = {
 "C10": "pattern grammar: parseRoute is a pure function of one string and two integer limits; no schedule, history, clock or fault for a simulator to control (a slice of the grammar is exercised inside the C02 model, not claimed)",
 "C16": "zero allocation is a resource measurement of real executions (testing.AllocsPerRun); the simulator has no seam on the Go allocator and allocations cannot be made to fail",
 "C17": "CleanPath is a pure string function; its one system-level clause (redirect only for clean paths) is checked inside C08's dispatch oracle",
 "C18": "client-IP resolvers are pure functions of header lines, remote address and constructor parameters; nothing to schedule or fault",
 "C19": "route options are a pure function of two option lists and a pattern; the one schedule-sensitive aspect (routes sharing the router's middleware slice) is C13's concurrent clause",
}

# id: (engine, level, technique, text, note, design_ref)
CHECKS = {
 "C01": ("seq", "exploration", "deterministic simulation: seeded mutation histories + probe requests refined against an independent reference matcher through every entry point; shrinking + exact replay",
         "The tree is whatever a seeded history of inserts, updates, deletes, truncations and aborted transactions left behind, read through recycled request contexts; every probe is routed through Lookup, Reverse, Iter.Reverse and ServeHTTP (router, read-only and open write transactions) and compared with a structurally different reference matcher plus the substitution round-trip. Sampling over history x request; the exhaustive small-alphabet part of the quantifier is model checking and is not done. One deviation of the pinned tree is a listed known finding (known_findings.json: C01/star-segment-prefers-catch-all, DESIGN 5.4): the check prints a KNOWN-FINDING line for it and exits 0; any other deviation is a violation.",
         "trusts the reference matcher in harness/model (token trie, depth-first static > param > catch-all) and the stated tolerance for captures starting with '/'", "6 C01"),
 "C02": ("seq", "exploration", "deterministic simulation: seeded operation/transaction-fault histories refined step by step against a sequential map model, shrinking + exact replay",
         "Seeded histories of every mutating entry point (direct and in transactions ended by commit, abort, returned error and injected panic) are executed on the real router; every return value, error class, conflict list and a full observation sweep are compared with a sequential map after each step. Sampling, not proof: right level because the property quantifies over unbounded histories.",
         "trusts the reference map/conflict rule in harness/model and the pool generator's reach (<=6 segments, 3 methods)", "6 C02"),
 "C03": ("seq+conc", "exploration", "deterministic simulation: snapshot self-consistency over seeded histories; seeded cooperative schedules of snapshot holders vs writers; same schedules under the race detector (HB mode)",
         "Every live snapshot (Iter, read-only Txn, Txn.Snapshot, Txn.Iter, held Lookup context, parked handler, View) is re-observed in full after every later operation and compared with its own first observation; concurrent holders re-observe between writer steps under a seeded scheduler; HB mode reports any store into memory reachable from a published root as a data race with both stacks in fox.",
         "self-consistency needs no model; the copy cache is shrunk through the verif knob instead of running 4096-node transactions", "6 C03"),
 "C04": ("seq+conc", "fault_enumeration", "deterministic simulation with enumerated fault points: every transaction ending (commit/abort/error/panic) after every prefix of each generated program, observed by a second scheduled task; porcupine over concurrent histories",
         "For each generated transaction program all endings at all positions are enumerated; the transaction's own view, the router's view from a second task, the all-or-nothing outcome, refusal of settled and read-only transactions and the release of the writer lock (deadlock detector) are checked; multi-route transactions next to snapshot readers are checked for linearizability. Enumeration is complete per program, programs are sampled.",
         "programs of <= 6 operations; trusts the sequential map model and porcupine", "6 C04"),
 "C05": ("conc", "exploration", "deterministic simulation: seeded cooperative scheduler over mechanically inserted yield points at every lock/unlock/load/store; porcupine linearizability of recorded histories; deterministic data-race detection (HB mode)",
         "1-3 writers and 1-3 readers on keys sharing tree nodes run under a scheduler that decides every switch from the seed; invoke/return stamps are global event numbers; the history plus a final audit must be linearizable w.r.t. a sequential map + reference dispatcher; any panic or fatal error in fox is a violation; the same schedules run under -race with simulator hand-offs hidden so that only fox's own synchronisation orders its accesses.",
         "yield points are inserted around every Lock/Unlock/Load/Store call of a scratch copy at build time; code between two such points is atomic to the plain-mode scheduler (HB mode does not need a switch at the exact spot)", "6 C05"),
 "C06": ("conc", "exploration", "deterministic simulation: writer parked at every stage of a transaction's life by the scheduler while reader tasks must run to completion; lock-wait and blocked-goroutine detection",
         "A writer is held at a drawn stage (lock taken, root loaded, after k writes, inside Updates, after Snapshot/Iter, at commit, before/after the store, before unlock) until every reader finished one to three read entry points; a reader that waits for the writer lock (instrumented Lock) or blocks in any sync primitive (stack sampling) is a violation; the converse (readers parked, writers must finish) is checked too.",
         "dynamic reach only: the static call-graph half of the quantifier is not addressed", "6 C06"),
 "C07": ("seq", "exploration", "deterministic simulation: differential run of two real routers (seeded mutation history vs fresh insertion in random order), no model in the comparison",
         "Two fox routers holding the same set by different histories must answer every probe alike through Lookup, Reverse and ServeHTTP. No oracle beyond equality, so an alarm is always a real divergence.",
         "probes derived from the pool; sets <= 14 routes (+fan-out)", "6 C07"),
 "C08": ("seq", "exploration", "deterministic simulation: seeded histories + slash-toggled and percent-encoded probes against the reference dispatcher; redirects followed inside the simulation; metamorphic irrelevant-route removal",
         "Which route is offered as slash-adjusted candidate, with which parameters, what the dispatcher does with it (ignore, redirect 301/308 only for clean non-root paths and never for CONNECT, unmatched) and where Location leads (resolved and served inside the simulation) are compared with the reference; the detection defects of the pinned tree were first classified as known findings by structural predicates and then repaired (fix: commits 953495b 8179a1d 758e438); the classifiers remain and report a deviation of those shapes as a violation.",
         "trusts the reference matcher's trailing-slash rule (toggle the final slash; an added slash must pair with a literal '/' of the pattern)", "6 C08"),
 "C09": ("seq", "exploration", "deterministic simulation: seeded histories over mixed hostname/path-only pools, Host header variants (exact, port, trailing dot, extended, truncated, literals) against the reference host rules; metamorphic host-ignored clause",
         "Whole-host matching is universal over Host strings; the check samples near-miss variants around every registered hostname on trees shaped by histories and compares all entry points with the reference.",
         "hosts lower case; slash-adjusted hostname candidates are judged by C08", "6 C09"),
 "C11": ("seq", "exploration", "deterministic simulation: seeded histories x the four option combinations x methods incl. OPTIONS/'*'/methods without routes against the reference dispatcher (handler kind, Allow as a set, scrubbed context, scope)",
         "Which special handler answers an unserved request, the exact Allow set and the context it sees are compared with the reference over arbitrary tables; a per-method answer that deviates in one of the (now repaired) C08 detection shapes is reported under its own class. One deviation of the pinned tree is a listed known finding (C11/allow-lists-connect-through-ignored-slash, DESIGN 5.3): KNOWN-FINDING line, exit 0.",
         "Allow composition is judged on top of per-method routing answers checked against the reference", "6 C11"),
 "C12": ("req+conc", "exploration", "deterministic simulation: token-tagged requests of every shape from 1-3 client tasks plus a tree-replacing writer under the seeded scheduler; every Context getter compared with the current request before and after each yield; clones re-inspected after later requests",
         "Leaks depend on what the previous user of a pooled context left behind and on which request ran in between; the scheduler decides both, the pool is made deterministic (one P, GC off during a run), and every observable field carries a per-request token so that any foreign datum is attributable.",
         "plain mode only (sync.Pool drops objects at random under -race); shapes and routes from a fixed family", "6 C12"),
 "C13": ("req+conc", "exploration", "deterministic simulation: configuration swarm of scoped global and route-specific middleware with per-request identifier traces; concurrent public NewRoute calls under the seeded scheduler with a yield between option application and chain composition; HB mode",
         "Each handler kind's trace is compared with the scope/order rule for a drawn configuration; route creation from several tasks is interleaved at the point where a shared backing array would be overwritten, and the same schedules run under the race detector.",
         "middleware identity = an integer appended on entry; DefaultOptions sub-batch only checks the user middleware around Recovery/Logger", "6 C13"),
 "C14": ("io", "fault_enumeration", "deterministic simulation with enumerated fault points: writer-call histories over a simulated connection whose failure byte and whose source's failure byte are enumerated over every boundary; differential run with/without the ReaderFrom fast path",
         "For each generated history of ResponseWriter/Context-helper calls every byte position at which the connection or the ReadFrom source fails is executed; Status/Size/Written after every call are compared with what the connection really received, and must not depend on the fast path.",
         "histories <= 7 calls and <= 14 body bytes; 'forwarded' is judged from the simulated connection's own log", "6 C14"),
 "C15": ("req+conc", "fault_enumeration", "deterministic simulation with enumerated fault points: every panic value x response progress x panic site, and a panic after every prefix of an Updates/View program inside a handler; follow-up request, route sweep and a scheduled write (deadlock detector) after each",
         "All combinations are executed for each generated configuration (routes, header capitalisation, transaction program); containment, the 500/untouched/nothing rule, the diagnostic record (route, params, request line, no secret value) and usability afterwards (routes unchanged, request served, writer lock released) are checked. One deviation of the pinned tree is a listed known finding (C15/fastpath-copy-panic-loses-accounting, DESIGN 5.4b): KNOWN-FINDING line, exit 0.",
         "panic values from a fixed list of 24 (typed nil pointers, values whose methods panic and a runtime panic from a generated wrapper included); secrets are unique tokens searched as substrings of the whole record", "6 C15"),
 "C20": ("req", "exploration", "deterministic simulation: scripted handler behaviours x resolver configurations x handler kinds through the real Logger middleware with a capturing sink, differential against a twin router without the logger",
         "One record per returning handler, after it, with the recorder's status, the request's method/host/path, the three-way client-IP message, the level per status class and the location attribute; the response must be byte-identical to the twin router's; a panic passes through as the identical value without a record.",
         "latency attribute ignored (real clock, unobserved)", "6 C20"),
}

PENDING = {}  # id -> reason while a check is being built

def main():
    checks = []
    for pid, (engine, level, tech, text, note, ref) in sorted(CHECKS.items()):
        checks.append({
            "property_id": pid,
            "quick_cmd": f"/verif/bin/check {pid} --tier quick",
            "thorough_cmd": f"/verif/bin/check {pid} --tier thorough",
            "evidence_file": f"/verif/evidence/{pid}.json",
            "replay_cmd_template": f"/verif/bin/check {pid} --replay {{path}}",
            "engine": engine,
            "level_claimed": {"category": level, "text": text, "design_ref": "DESIGN.md section " + ref},
            "level_note": note,
            "technique": tech,
        })
    na = [{"property_id": k, "reason": v} for k, v in sorted(NA.items())]
    for k, v in sorted(PENDING.items()):
        if k not in CHECKS:
            na.append({"property_id": k, "reason": v})
    na.sort(key=lambda x: x["property_id"])
    engines = {}
    for pid, c in CHECKS.items():
        engines.setdefault(c[0], []).append(pid)
    kinds = {
      "seq+conc": "both of the engines below, chosen per run",
      "req+conc": "request world (scripted handlers, panics, resolvers, log capture over the real ServeHTTP path) driven by tasks of the cooperative scheduler",
      "seq": "sequential refinement engine: seeded histories on the real router, compared operation by operation with the reference model",
      "conc": "cooperative one-task-at-a-time scheduler over fox's verif yield points; seeded schedules; porcupine linearizability; HB mode = same schedules under -race with simulator hand-offs hidden",
      "io": "simulated connection and sources with injected short writes/errors; writer-call histories with enumerated fault positions",
      "req": "request world: scripted handlers, panics, resolvers and log capture over the real ServeHTTP path",
    }
    m = {
      "version": 1,
      "setup_cmd": "cd /verif/harness && GOTOOLCHAIN=local GOFLAGS=-mod=mod GOPROXY=off go1.26.8 build -o /verif/bin/check ./cmd/check",
      "hooks": {
        "guard": "verif",
        "enable": "go build -tags verif (the driver builds harness/cmd/worker against /repo's working tree through a replace directive)",
        "baseline_off_cmd": "cd /repo && go test -mod=mod -vet=off -count=1 -timeout 25m ./...",
        "source_commits": HOOK_COMMITS,
        "add_only": True,
      },
      "engines": [{"name": k, "path": "/verif/harness", "serves_properties": sorted(v), "kind_free_text": kinds.get(k, "")} for k, v in sorted(engines.items())],
      "checks": checks,
      "not_applicable": na,
      "notes": "Deterministic simulation with fault injection; see DESIGN.md. VERIF_SEED and VERIF_TIER are honoured. Exit codes: 0 held, 1 violation (VIOLATION line with replay file), 2 harness/build trouble (never a verdict).",
    }
    json.dump(m, open("/verif/MANIFEST.json", "w"), indent=1)
    print("checks:", [c["property_id"] for c in checks], "n/a:", [x["property_id"] for x in na])

if __name__ == "__main__":
    main()
