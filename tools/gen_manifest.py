#!/usr/bin/env python3
"""Regenerates /verif/MANIFEST.json from the table below (kept in one place so the manifest is always valid)."""
import json, subprocess, sys

HOOK_COMMITS = ["c491b67", "df520a4"]

NA = {
 "C10": "pattern grammar: parseRoute is a pure function of one string and two integer limits; no schedule, history, clock or fault for a simulator to control (a slice of the grammar is exercised inside the C02 model, not claimed)",
 "C16": "zero allocation is a resource measurement of real executions (testing.AllocsPerRun); the simulator has no seam on the Go allocator and allocations cannot be made to fail",
 "C17": "CleanPath is a pure string function; its one system-level clause (redirect only for clean paths) is checked inside C08's dispatch oracle",
 "C18": "client-IP resolvers are pure functions of header lines, remote address and constructor parameters; nothing to schedule or fault",
 "C19": "route options are a pure function of two option lists and a pattern; the one schedule-sensitive aspect (routes sharing the router's middleware slice) is C13's concurrent clause",
}

# id: (engine, level, technique, text, note, design_ref)
CHECKS = {
 "C02": ("seq", "exploration", "deterministic simulation: seeded operation/transaction-fault histories refined step by step against a sequential map model, shrinking + exact replay",
         "Seeded histories of every mutating entry point (direct and in transactions ended by commit, abort, returned error and injected panic) are executed on the real router; every return value, error class, conflict list and a full observation sweep are compared with a sequential map after each step. Sampling, not proof: right level because the property quantifies over unbounded histories.",
         "trusts the reference map/conflict rule in harness/model and the pool generator's reach (<=6 segments, 3 methods)", "6 C02"),
}

PENDING = {'C01': 'check under construction in this revision; not claimed yet', 'C03': 'check under construction in this revision; not claimed yet', 'C04': 'check under construction in this revision; not claimed yet', 'C05': 'check under construction in this revision; not claimed yet', 'C06': 'check under construction in this revision; not claimed yet', 'C07': 'check under construction in this revision; not claimed yet', 'C08': 'check under construction in this revision; not claimed yet', 'C09': 'check under construction in this revision; not claimed yet', 'C11': 'check under construction in this revision; not claimed yet', 'C12': 'check under construction in this revision; not claimed yet', 'C13': 'check under construction in this revision; not claimed yet', 'C14': 'check under construction in this revision; not claimed yet', 'C15': 'check under construction in this revision; not claimed yet', 'C20': 'check under construction in this revision; not claimed yet'}  # id -> reason while a check is being built

def main():
    checks = []
    for pid, (engine, level, tech, text, note, ref) in sorted(CHECKS.items()):
        checks.append({
            "property_id": pid,
            "quick_cmd": f"/verif/bin/check {pid} --tier quick",
            "thorough_cmd": f"/verif/bin/check {pid} --tier thorough",
            "evidence_file": f"/verif/evidence/{pid}.json",
            "replay_cmd_template": f"/verif/bin/check {pid} --replay {{path}}",
            "engine": engine,
            "level_claimed": {"category": level, "text": text, "design_ref": "DESIGN.md section " + ref},
            "level_note": note,
            "technique": tech,
        })
    na = [{"property_id": k, "reason": v} for k, v in sorted(NA.items())]
    for k, v in sorted(PENDING.items()):
        if k not in CHECKS:
            na.append({"property_id": k, "reason": v})
    na.sort(key=lambda x: x["property_id"])
    engines = {}
    for pid, c in CHECKS.items():
        engines.setdefault(c[0], []).append(pid)
    kinds = {
      "seq": "sequential refinement engine: seeded histories on the real router, compared operation by operation with the reference model",
      "conc": "cooperative one-task-at-a-time scheduler over fox's verif yield points; seeded schedules; porcupine linearizability; HB mode = same schedules under -race with simulator hand-offs hidden",
      "io": "simulated connection and sources with injected short writes/errors; writer-call histories with enumerated fault positions",
      "req": "request world: scripted handlers, panics, resolvers and log capture over the real ServeHTTP path",
    }
    m = {
      "version": 1,
      "setup_cmd": "cd /verif/harness && GOTOOLCHAIN=local GOFLAGS=-mod=mod GOPROXY=off go1.26.8 build -o /verif/bin/check ./cmd/check",
      "hooks": {
        "guard": "verif",
        "enable": "go build -tags verif (the driver builds harness/cmd/worker against /repo's working tree through a replace directive)",
        "baseline_off_cmd": "cd /repo && go test -mod=mod -vet=off -count=1 -timeout 25m ./...",
        "source_commits": HOOK_COMMITS,
        "add_only": True,
      },
      "engines": [{"name": k, "path": "/verif/harness", "serves_properties": sorted(v), "kind_free_text": kinds.get(k, "")} for k, v in sorted(engines.items())],
      "checks": checks,
      "not_applicable": na,
      "notes": "Deterministic simulation with fault injection; see DESIGN.md. VERIF_SEED and VERIF_TIER are honoured. Exit codes: 0 held, 1 violation (VIOLATION line with replay file), 2 harness/build trouble (never a verdict).",
    }
    json.dump(m, open("/verif/MANIFEST.json", "w"), indent=1)
    print("checks:", [c["property_id"] for c in checks], "n/a:", [x["property_id"] for x in na])

if __name__ == "__main__":
    main()
