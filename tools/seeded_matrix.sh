#!/bin/bash
# Re-runs, for every kept seeded change, the checks its meta.json lists (quick tier) and prints one line per pair.
cd /verif
for d in seeded/*/; do
  name=$(basename $d)
  git -C /repo apply --check /verif/$d/patch.diff 2>/dev/null || { echo "$name PATCH-DOES-NOT-APPLY"; continue; }
  for p in $(jq -r '.what_i_ran.result.checks | keys[]' $d/meta.json); do
    was=$(jq -r ".what_i_ran.result.checks[\"$p\"]" $d/meta.json)
    out=$(timeout 900 tools/mutant.sh $d/patch.diff bin/check $p --tier quick 2>&1); rc=$?
    cls=$(echo "$out" | grep -m1 "class=" | sed 's/.*class=\([^ ]*\).*/\1/')
    case $rc in 0) r=missed;; 1) r="caught ($cls)";; *) r="trouble($rc)";; esac
    echo "$name $p now: $r | recorded: $was"
  done
done
