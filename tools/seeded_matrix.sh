#!/bin/bash
# Re-runs, for every kept seeded change, the checks its meta.json lists (quick tier) and prints one line per pair.
# Works on scratch copies (a worktree of /repo and a copy of /verif under /tmp/scratch) so that /repo, the evidence files
# and the replays of /verif are not touched; both copies are removed at the end.
#   tools/seeded_matrix.sh [name-filter]
set -u
S=/tmp/scratch/matrix.$$
mkdir -p $S
git -C /repo worktree add --detach $S/repo HEAD -q || exit 2
rsync -a --exclude .git --exclude .build --exclude 'replays/*.json' /verif/ $S/verif/
export VERIF_DIR=$S/verif VERIF_REPO=$S/repo VERIF_KNOWN=$S/verif/known_findings.json
for d in /verif/seeded/*${1:-}*/; do
  name=$(basename $d)
  git -C $S/repo apply --check $d/patch.diff 2>/dev/null || { echo "$name PATCH-DOES-NOT-APPLY"; continue; }
  git -C $S/repo apply $d/patch.diff
  for p in $(jq -r '.what_i_ran.result.checks | keys[]' $d/meta.json); do
    was=$(jq -r ".what_i_ran.result.checks[\"$p\"]" $d/meta.json)
    out=$(cd $S/verif && timeout 900 bin/check $p --tier quick 2>&1); rc=$?
    cls=$(echo "$out" | grep -m1 "class=" | sed 's/.*class=\([^ ]*\).*/\1/')
    case $rc in 0) r=missed;; 1) r="caught ($cls)";; *) r="trouble($rc)";; esac
    echo "$name $p now: $r | recorded: $was"
  done
  git -C $S/repo checkout -- . ; git -C $S/repo clean -fdq
done
git -C /repo worktree remove --force $S/repo
rm -rf $S
