// Package sim is the deterministic simulator: choice sources (PRNG, recorder, replay), a shrinker over recorded
// choice sequences, and a cooperative one-task-at-a-time scheduler with stall detection and race-detector shims.
package sim

import "fmt"

// Source is the only origin of nondeterminism in a simulated run. Every generated configuration, operation, fault and
// scheduling decision is an Intn draw.
type Source interface {
	// Intn returns a value in [0, n). n must be >= 1.
	Intn(label string, n int) int
}

// PRNG is a splitmix64 generator.
type PRNG struct{ s uint64 }

func NewPRNG(seed uint64) *PRNG { return &PRNG{s: seed} }

func (p *PRNG) next() uint64 {
	p.s += 0x9e3779b97f4a7c15
	z := p.s
	z = (z ^ (z >> 30)) * 0xbf58476d1ce4e5b9
	z = (z ^ (z >> 27)) * 0x94d049bb133111eb
	return z ^ (z >> 31)
}

func (p *PRNG) Intn(_ string, n int) int {
	if n <= 1 {
		return 0
	}
	return int(p.next() % uint64(n))
}

// Mix derives an independent seed from several integers.
func Mix(vs ...uint64) uint64 {
	h := uint64(0xcbf29ce484222325)
	for _, v := range vs {
		h ^= v
		h *= 0x100000001b3
		h ^= h >> 29
		h *= 0xbf58476d1ce4e5b9
		h ^= h >> 32
	}
	return h
}

// Choices is a recorded run: the draws that generate configuration, programs and faults (Gen) and the scheduler's picks
// (Sched) are kept in two lists, so that deleting an operation while shrinking does not shift the schedule and vice versa.
type Choices struct {
	Gen   []int `json:"choices"`
	Sched []int `json:"schedule"`
}

func (c Choices) Len() int { return len(c.Gen) + len(c.Sched) }

// isSched tells which stream a draw belongs to.
func isSched(label string) bool { return label == "stay" || label == "pick" }

// Recorder wraps a source and records every decision.
type Recorder struct {
	In  Source
	Log Choices
}

func (r *Recorder) Intn(label string, n int) int {
	v := r.In.Intn(label, n)
	if isSched(label) {
		r.Log.Sched = append(r.Log.Sched, v)
	} else {
		r.Log.Gen = append(r.Log.Gen, v)
	}
	return v
}

// Values returns a copy of the recorded choices.
func (r *Recorder) Values() Choices {
	return Choices{Gen: append([]int(nil), r.Log.Gen...), Sched: append([]int(nil), r.Log.Sched...)}
}

// Replay feeds back recorded choices. In strict mode an out-of-range or missing entry is an error (Err is set and 0
// returned from then on); in lenient mode (shrinking) values are reduced modulo n and missing entries are 0.
type Replay struct {
	Vals   Choices
	posG   int
	posS   int
	Strict bool
	Err    error
}

func (r *Replay) Intn(label string, n int) int {
	if n < 1 {
		n = 1
	}
	list, pos := r.Vals.Gen, &r.posG
	if isSched(label) {
		list, pos = r.Vals.Sched, &r.posS
	}
	if *pos >= len(list) {
		if r.Strict && r.Err == nil {
			r.Err = fmt.Errorf("replay exhausted at draw %d (%s)", *pos, label)
		}
		*pos++
		return 0
	}
	v := list[*pos]
	*pos++
	if v < 0 || v >= n {
		if r.Strict {
			if r.Err == nil {
				r.Err = fmt.Errorf("replay value %d out of range [0,%d) at draw %d (%s)", v, n, *pos-1, label)
			}
			return 0
		}
		if v < 0 {
			v = -v
		}
		v %= n
	}
	return v
}

// Helpers over a Source.

func Bool(s Source, label string) bool { return s.Intn(label, 2) == 1 }

// Chance is true with probability num/den.
func Chance(s Source, label string, num, den int) bool { return s.Intn(label, den) < num }

func Pick[T any](s Source, label string, xs []T) T { return xs[s.Intn(label, len(xs))] }

// Range returns a value in [lo, hi].
func Range(s Source, label string, lo, hi int) int { return lo + s.Intn(label, hi-lo+1) }
