//go:build race

package sim

import "runtime"

// RaceEnabled reports whether the binary was built with -race ("HB mode").
const RaceEnabled = true

func raceDisable() { runtime.RaceDisable() }
func raceEnable()  { runtime.RaceEnable() }
