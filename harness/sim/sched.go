package sim

import (
	"fmt"
	"runtime"
	"strconv"
	"strings"
	"sync"
	"syscall"
	"time"
)

// Point identifies a yield point. Values 1..31 are the hook points inside fox (same numbering as fox.SimPt*),
// the others are harness-level points.
type Point int

const (
	PtLocked       Point = 1
	PtBeforeLoad   Point = 2
	PtAfterLoad    Point = 3
	PtCommit       Point = 4
	PtStored       Point = 5
	PtUnlocked     Point = 6
	PtAbort        Point = 7
	PtRouteOpts    Point = 8
	PtBeforeUnlock Point = 9
	PtBeforeStore  Point = 10
	PtTryLock      Point = 11

	PtAcquire Point = 32 // before the writer lock is requested
	PtUser    Point = 33 // between two API calls of a task's program
	PtHandler Point = 34 // inside a request handler / middleware
	PtIter    Point = 35 // between two elements of an iteration
	PtTxnFn   Point = 36 // inside an Updates/View function
	PtHeld    Point = 37 // while holding a context / snapshot
	NumPoints       = 40
)

var pointNames = map[Point]string{
	PtLocked: "locked", PtBeforeLoad: "before_load", PtAfterLoad: "after_load", PtCommit: "commit", PtStored: "stored",
	PtUnlocked: "unlocked", PtAbort: "abort", PtRouteOpts: "route_opts", PtBeforeUnlock: "before_unlock", PtBeforeStore: "before_store", PtTryLock: "try_lock", PtAcquire: "acquire", PtUser: "user",
	PtHandler: "handler", PtIter: "iter", PtTxnFn: "txn_fn", PtHeld: "held",
}

func (p Point) String() string {
	if n, ok := pointNames[p]; ok {
		return n
	}
	if p == 0 {
		return "start"
	}
	return "pt" + strconv.Itoa(int(p)) // no fmt here: the scheduler goroutine runs with race-detector synchronisation ignored and must stay out of fmt's sync.Pool
}

type taskState int

const (
	stNew taskState = iota
	stParked
	stWaiting // waiting for a condition evaluated by the scheduler (writer lock, gate)
	stRunning
	stDone
)

// Task is one simulated caller goroutine.
type Task struct {
	ID   int
	Name string
	s    *Sched
	fn   func(t *Task)

	resume   chan struct{}
	state    taskState
	point    Point
	cond     func() bool
	condWhat string

	killed bool

	// observations
	LockWaits  int // times the task had to wait for the writer lock
	Steps      int // times the task was resumed
	Panic      any
	PanicStack string
	Finished   bool
}

// OutcomeKind says how a run ended.
type OutcomeKind int

const (
	Done OutcomeKind = iota
	Deadlock
	Stalled
	StepLimit
	Watchdog
)

func (k OutcomeKind) String() string {
	return [...]string{"done", "deadlock", "stalled", "step-limit", "watchdog"}[k]
}

type Outcome struct {
	Kind   OutcomeKind
	Task   *Task  // stalled task
	State  string // wait state of the stalled goroutine
	Stack  string // its stack
	Detail string
}

// Event is one entry of the (optional) trace.
type Event struct {
	Seq  uint64 `json:"seq"`
	Task int    `json:"task"`
	Kind string `json:"kind"`
	Info string `json:"info,omitempty"`
}

// Sched is the cooperative scheduler: exactly one task runs at any time and every switch is a Source decision.
type Sched struct {
	Src   Source
	Tasks []*Task

	cur     *Task
	last    *Task
	running bool
	notify  chan *Task
	wg      sync.WaitGroup

	seq  uint64
	hash uint64

	// per-run policy
	Disabled [NumPoints]bool
	StayNum  int
	StayDen  int
	MaxSteps int

	// measurements
	Steps      int
	Switches   int
	PointHits  [NumPoints]int
	PointParks [NumPoints]int
	LockWaits  int
	SchedHash  uint64 // hash of the sequence of picks only

	KeepTrace bool
	Trace     []Event

	noYield int   // >0: yields return at once (atomic section of the running task)
	hold    *Hold // optional: park one task at one point until a gate opens

	StallAfter time.Duration
	SpinLimit  time.Duration
	HardLimit  time.Duration
	leaked     bool
	timer      *time.Timer
}

// Hold parks Task the first time it reaches Point and keeps it there until Gate reports true.
type Hold struct {
	Task  *Task
	Point Point
	Gate  func() bool
	Hit   bool
}

// SetHold installs a hold (one per run).
func (s *Sched) SetHold(h *Hold) { s.hold = h }

// Atomic runs f without any yield (observations that must not interleave with other tasks).
//
//go:norace
func (s *Sched) Atomic(f func()) {
	s.noYield++
	defer s.atomicEnd()
	f()
}

//go:norace
func (s *Sched) atomicEnd() { s.noYield-- }

// active is the scheduler the fox hooks talk to. Only one simulated run exists per process at a time.
var active *Sched

func NewSched(src Source) *Sched {
	return &Sched{
		Src: src, notify: make(chan *Task), hash: 0xcbf29ce484222325, SchedHash: 0xcbf29ce484222325,
		StayNum: 1, StayDen: 2, MaxSteps: 200000,
		StallAfter: 50 * time.Millisecond, SpinLimit: 4 * time.Second, HardLimit: 60 * time.Second,
	}
}

// Go registers a task. Tasks start parked; nothing runs before Run.
func (s *Sched) Go(name string, fn func(t *Task)) *Task {
	t := &Task{ID: len(s.Tasks), Name: name, s: s, fn: fn, resume: make(chan struct{})}
	s.Tasks = append(s.Tasks, t)
	return t
}

// Leaked reports whether a task goroutine had to be abandoned (blocked in a primitive the simulator does not gate).
func (s *Sched) Leaked() bool { return s.leaked }

// Hash is the event-log hash: the determinism witness of a run.
func (s *Sched) Hash() uint64 { return s.hash }

//go:norace
func (s *Sched) mix(vs ...uint64) {
	h := s.hash
	for _, v := range vs {
		h ^= v
		h *= 0x100000001b3
	}
	s.hash = h
}

// Note adds an observation to the event log (hash and optional trace). It draws nothing and reads no clock.
//
//go:norace
func (s *Sched) Note(kind string, info string) {
	s.seq++
	h := uint64(0)
	for i := 0; i < len(kind); i++ {
		h = h*131 + uint64(kind[i])
	}
	for i := 0; i < len(info); i++ {
		h = h*131 + uint64(info[i])
	}
	id := uint64(255)
	if s.cur != nil {
		id = uint64(s.cur.ID)
	}
	s.mix(s.seq, id, h)
	if s.KeepTrace {
		s.Trace = append(s.Trace, Event{Seq: s.seq, Task: int(int64(id)), Kind: kind, Info: info})
	}
}

// Stamp returns the next global event sequence number (used for invoke/return stamps of recorded histories).
//
//go:norace
func (s *Sched) Stamp() uint64 {
	s.seq++
	return s.seq
}

// Current returns the running task (nil outside a run).
//
//go:norace
func (s *Sched) Current() *Task {
	if s == nil || !s.running {
		return nil
	}
	return s.cur
}

//go:norace
func (t *Task) park() {
	raceDisable()
	t.s.notify <- t
	<-t.resume
	raceEnable()
}

// Yield parks the running task at pt until the scheduler resumes it. Outside a run, for a disabled point or for a
// killed task it returns at once.
//
//go:norace
func (s *Sched) Yield(pt Point) {
	if s == nil || !s.running {
		return
	}
	t := s.cur
	if t == nil || t.killed {
		return
	}
	s.PointHits[pt]++
	if s.noYield > 0 {
		return
	}
	if h := s.hold; h != nil && !h.Hit && h.Task == t && h.Point == pt {
		h.Hit = true
		s.Note("hold", pt.String())
		s.WaitUntil("hold gate", h.Gate)
		return
	}
	if s.Disabled[pt] {
		return
	}
	s.PointParks[pt]++
	t.point = pt
	t.state = stParked
	t.park()
	if t.killed {
		runtime.Goexit()
	}
}

// WaitUntil blocks the running task (cooperatively) until cond, evaluated by the scheduler, is true.
//
//go:norace
func (s *Sched) WaitUntil(what string, cond func() bool) {
	if s == nil || !s.running {
		return
	}
	t := s.cur
	if t == nil || t.killed {
		return
	}
	for !cond() {
		t.state = stWaiting
		t.cond = cond
		t.condWhat = what
		t.park()
		if t.killed {
			runtime.Goexit()
		}
	}
	t.cond = nil
}

// acquire implements the fox SimHooks.Acquire hook.
//
//go:norace
func (s *Sched) acquire(probe func() bool) {
	if s == nil || !s.running {
		return
	}
	t := s.cur
	if t == nil || t.killed {
		return
	}
	s.Yield(PtAcquire)
	if t.killed {
		return
	}
	waited := false
	for !probe() {
		if !waited {
			waited = true
			t.LockWaits++
			s.LockWaits++
			s.Note("lockwait", "")
		}
		t.state = stWaiting
		t.cond = probe
		t.condWhat = "writer lock"
		t.park()
		if t.killed {
			runtime.Goexit()
		}
	}
	t.cond = nil
}

// HookPoint implements the fox SimHooks.Point hook.
//
//go:norace
func HookPoint(pt int) {
	if s := active; s != nil {
		s.Yield(Point(pt))
	}
}

// HookAcquire implements the fox SimHooks.Acquire hook.
//
//go:norace
func HookAcquire(probe func() bool) {
	if s := active; s != nil {
		s.acquire(probe)
	}
}

// Active returns the scheduler of the run in progress, if any.
//
//go:norace
func Active() *Sched { return active }

//go:norace
func (t *Task) firstPark() {
	raceDisable()
	<-t.resume
	raceEnable()
}

func (s *Sched) taskMain(t *Task) {
	defer s.wg.Done()
	t.firstPark()
	defer func() {
		// runs on normal return, on panic and on Goexit (recover returns nil for the latter)
		if p := recover(); p != nil && !t.killed {
			t.Panic = p
			buf := make([]byte, 32<<10)
			t.PanicStack = string(buf[:runtime.Stack(buf, false)])
		}
		t.state = stDone
		raceDisable()
		s.notify <- t
		raceEnable()
	}()
	if t.killed {
		return
	}
	t.fn(t)
	t.Finished = true
}

//go:norace
func (s *Sched) runnable(buf []*Task) []*Task {
	buf = buf[:0]
	// the task that ran last comes first, so that a zero pick means "no context switch"
	if l := s.last; l != nil && s.ready(l) {
		buf = append(buf, l)
	}
	for _, t := range s.Tasks {
		if t != s.last && s.ready(t) {
			buf = append(buf, t)
		}
	}
	return buf
}

//go:norace
func (s *Sched) ready(t *Task) bool {
	switch t.state {
	case stNew, stParked:
		return true
	case stWaiting:
		return t.cond()
	}
	return false
}

// Run executes all tasks to completion under the scheduler's control.
//
//go:norace
func (s *Sched) Run() Outcome {
	if active != nil {
		panic("sim: nested run")
	}
	for _, t := range s.Tasks {
		s.wg.Add(1)
		go s.taskMain(t)
	}
	active = s
	s.running = true
	raceDisable()
	out := s.loop()
	// kill whatever is left
	s.killAll()
	s.running = false
	active = nil
	raceEnable()
	if !s.leaked {
		s.wg.Wait() // TSan-visible join: task-private logs may be read afterwards
	}
	return out
}

//go:norace
func (s *Sched) loop() Outcome {
	var buf []*Task
	for {
		run := s.runnable(buf)
		buf = run
		if len(run) == 0 {
			pending := 0
			var what []string
			for _, t := range s.Tasks {
				if t.state != stDone {
					pending++
					what = append(what, fmt.Sprintf("%s waits for %s", t.Name, t.condWhat))
				}
			}
			if pending == 0 {
				return Outcome{Kind: Done}
			}
			return Outcome{Kind: Deadlock, Detail: strings.Join(what, "; ")}
		}
		if s.Steps >= s.MaxSteps {
			return Outcome{Kind: StepLimit, Detail: fmt.Sprintf("%d steps", s.Steps)}
		}
		var t *Task
		switch {
		case len(run) == 1:
			t = run[0]
		case run[0] == s.last:
			if s.StayNum > 0 && s.Src.Intn("stay", s.StayDen) < s.StayNum {
				t = run[0]
			} else {
				t = run[1+s.Src.Intn("pick", len(run)-1)]
			}
		default:
			t = run[s.Src.Intn("pick", len(run))]
		}
		if s.last != nil && t != s.last {
			s.Switches++
		}
		s.Steps++
		t.Steps++
		s.SchedHash = (s.SchedHash ^ uint64(t.ID+1)) * 0x100000001b3
		s.seq++
		s.mix(s.seq, uint64(t.ID), uint64(t.point), uint64(t.state))
		if s.KeepTrace {
			s.Trace = append(s.Trace, Event{Seq: s.seq, Task: t.ID, Kind: "run", Info: t.point.String()})
		}
		s.cur, s.last = t, t
		t.state = stRunning
		t.resume <- struct{}{}
		if out, ok := s.await(t); !ok {
			return out
		}
		s.cur = nil
	}
}

// await waits until the resumed task parks or finishes; it detects a task blocked outside the simulator's gates.
//
//go:norace
func (s *Sched) await(t *Task) (Outcome, bool) {
	select {
	case <-s.notify:
		return Outcome{}, true
	default:
	}
	if s.timer == nil {
		s.timer = time.NewTimer(s.StallAfter)
	} else {
		s.timer.Reset(s.StallAfter)
	}
	timer := s.timer
	defer timer.Stop()
	// detection only; never feeds a decision of the simulated run. Measured in CPU time of this process, not wall time:
	// a suspended VM or a starved process makes the wall clock jump without the task having computed anything
	start := cpuTime()
	prev := ""
	for {
		select {
		case <-s.notify:
			return Outcome{}, true
		case <-timer.C:
			state, stack := s.runningTaskState()
			if isWaitState(state) {
				if prev == state {
					s.leaked = true
					return Outcome{Kind: Stalled, Task: t, State: state, Stack: stack}, false
				}
				prev = state
				timer.Reset(20 * time.Millisecond)
				continue
			}
			prev = ""
			if cpuTime()-start > s.SpinLimit && (state == "running" || state == "runnable") {
				// the task has been computing for seconds without reaching any yield point: a busy-wait loop on state that
				// only a parked task can change (operations of the system under test take micro- to milliseconds)
				s.leaked = true
				return Outcome{Kind: Stalled, Task: t, State: "busy loop (no yield point reached for " + s.SpinLimit.String() + ")", Stack: stack}, false
			}
			if cpuTime()-start > s.HardLimit {
				s.leaked = true
				return Outcome{Kind: Watchdog, Task: t, State: state, Stack: stack, Detail: "task did not yield within the hard limit"}, false
			}
			timer.Reset(s.StallAfter)
		}
	}
}

// runningTaskState finds the one task goroutine that is not parked inside the simulator and returns its state.
func (s *Sched) runningTaskState() (state, stack string) {
	buf := make([]byte, 1<<20)
	n := runtime.Stack(buf, true)
	for _, g := range strings.Split(string(buf[:n]), "\n\n") {
		if !strings.Contains(g, "sim.(*Sched).taskMain") {
			continue
		}
		if strings.Contains(g, "sim.(*Task).park") || strings.Contains(g, "sim.(*Task).firstPark") {
			continue
		}
		hdr := g
		if i := strings.IndexByte(g, '\n'); i >= 0 {
			hdr = g[:i]
		}
		if i := strings.IndexByte(hdr, '['); i >= 0 {
			st := hdr[i+1:]
			if j := strings.IndexAny(st, ",]"); j >= 0 {
				st = st[:j]
			}
			return st, g
		}
	}
	return "unknown", ""
}

func isWaitState(st string) bool {
	switch st {
	case "sync.Mutex.Lock", "sync.RWMutex.RLock", "sync.RWMutex.Lock", "chan receive", "chan send", "select",
		"sync.Cond.Wait", "semacquire", "sync.WaitGroup.Wait", "chan receive (nil chan)", "chan send (nil chan)",
		"select (no cases)", "sleep":
		return true
	}
	return false
}

//go:norace
func (s *Sched) killAll() {
	for _, t := range s.Tasks {
		if t.state == stDone || t.state == stRunning {
			// stRunning: stalled or watchdog; cannot be killed
			continue
		}
		t.killed = true
		s.cur = t
		t.resume <- struct{}{}
		// the task leaves through Goexit (or returns at once if it never started); wait for its done notification
		deadline := time.NewTimer(5 * time.Second)
	wait:
		for {
			select {
			case x := <-s.notify:
				if x == t && t.state == stDone {
					break wait
				}
				// a killed task parked again (deferred code hit a wait): resume it again
				if x == t {
					t.resume <- struct{}{}
				}
			case <-deadline.C:
				s.leaked = true
				break wait
			}
		}
		deadline.Stop()
	}
	s.cur = nil
}

// Counter is a harness-side shared counter whose accesses are invisible to the race detector (it belongs to the
// simulator, not to the system under test).
type Counter struct{ n int }

//go:norace
func (c *Counter) Inc() { c.n++ }

//go:norace
func (c *Counter) Set(v int) { c.n = v }

//go:norace
func (c *Counter) Get() int { return c.n }

// AtLeast returns a gate condition.
func (c *Counter) AtLeast(v int) func() bool { return func() bool { return c.Get() >= v } }

// cpuTime is the CPU time (user + system) consumed by this process so far.
func cpuTime() time.Duration {
	var ru syscall.Rusage
	if err := syscall.Getrusage(syscall.RUSAGE_SELF, &ru); err != nil {
		return 0
	}
	return time.Duration(ru.Utime.Nano() + ru.Stime.Nano())
}
