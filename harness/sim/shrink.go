package sim

// Shrink minimises a failing run. run executes the system with the given source and returns the violation class
// ("" if none). A candidate is accepted when it fails with the same class and its canonical recorded choices are
// smaller: fewer generator draws, then fewer schedule draws, then lexicographically smaller. The generator stream and
// the schedule stream are shrunk alternately, each with the other held fixed. Deterministic, bounded by maxRuns.
func Shrink(vals Choices, class string, maxRuns int, run func(Source) string) (best Choices, runs int) {
	try := func(cand Choices) (Choices, bool) {
		if runs >= maxRuns {
			return Choices{}, false
		}
		runs++
		rec := &Recorder{In: &Replay{Vals: cand}}
		if run(rec) != class {
			return Choices{}, false
		}
		return rec.Values(), true
	}
	lessList := func(a, b []int) int {
		if len(a) != len(b) {
			if len(a) < len(b) {
				return -1
			}
			return 1
		}
		for i := range a {
			if a[i] != b[i] {
				if a[i] < b[i] {
					return -1
				}
				return 1
			}
		}
		return 0
	}
	less := func(a, b Choices) bool {
		if c := lessList(a.Gen, b.Gen); c != 0 {
			return c < 0
		}
		return lessList(a.Sched, b.Sched) < 0
	}
	best = vals
	if c, ok := try(best); ok {
		best = c
	} else {
		return vals, runs
	}
	// get/set one stream of a Choices value
	get := func(c Choices, sched bool) []int {
		if sched {
			return c.Sched
		}
		return c.Gen
	}
	with := func(c Choices, sched bool, l []int) Choices {
		if sched {
			return Choices{Gen: c.Gen, Sched: l}
		}
		return Choices{Gen: l, Sched: c.Sched}
	}
	pass := func(sched bool) bool {
		improved := false
		// 1. delete blocks, large to small, from the end
		for size := len(get(best, sched)) / 2; size >= 1; size /= 2 {
			for start := len(get(best, sched)) - size; start >= 0 && runs < maxRuns; {
				cur := get(best, sched)
				if start+size > len(cur) {
					start = len(cur) - size
					if start < 0 {
						break
					}
				}
				cand := append(append([]int(nil), cur[:start]...), cur[start+size:]...)
				if c, ok := try(with(best, sched, cand)); ok && less(c, best) {
					best = c
					improved = true
					start -= size
				} else {
					start--
					if size > 4 {
						start -= size/2 - 1
					}
				}
			}
		}
		// 2. zero blocks
		for size := 8; size >= 1; size /= 2 {
			for start := 0; start+size <= len(get(best, sched)) && runs < maxRuns; start += size {
				cur := get(best, sched)
				allZero := true
				for _, v := range cur[start : start+size] {
					if v != 0 {
						allZero = false
						break
					}
				}
				if allZero {
					continue
				}
				cand := append([]int(nil), cur...)
				for i := start; i < start+size; i++ {
					cand[i] = 0
				}
				if c, ok := try(with(best, sched, cand)); ok && less(c, best) {
					best = c
					improved = true
				}
			}
		}
		// 3. lower single values
		for i := 0; i < len(get(best, sched)) && runs < maxRuns; i++ {
			for runs < maxRuns {
				cur := get(best, sched)
				if i >= len(cur) || cur[i] == 0 {
					break
				}
				cand := append([]int(nil), cur...)
				if cand[i] > 1 {
					cand[i] /= 2
				} else {
					cand[i] = 0
				}
				if c, ok := try(with(best, sched, cand)); ok && less(c, best) {
					best = c
					improved = true
					continue
				}
				if cur[i] > 1 {
					cand = append([]int(nil), cur...)
					cand[i]--
					if c, ok := try(with(best, sched, cand)); ok && less(c, best) {
						best = c
						improved = true
						continue
					}
				}
				break
			}
		}
		return improved
	}
	for runs < maxRuns {
		a := pass(false)
		b := pass(true)
		if !a && !b {
			break
		}
	}
	return best, runs
}
