package sim

// Shrink minimises a failing choice sequence. run executes the system with the given source and returns the violation
// class ("" if none). A candidate is accepted when it fails with the same class and its canonical recorded sequence is
// shorter, or equally long and lexicographically smaller. The procedure is deterministic and bounded by maxRuns.
func Shrink(vals []int, class string, maxRuns int, run func(Source) string) (best []int, runs int) {
	try := func(cand []int) ([]int, bool) {
		if runs >= maxRuns {
			return nil, false
		}
		runs++
		rec := &Recorder{In: &Replay{Vals: cand}}
		if run(rec) != class {
			return nil, false
		}
		return rec.Values(), true
	}
	less := func(a, b []int) bool {
		if len(a) != len(b) {
			return len(a) < len(b)
		}
		for i := range a {
			if a[i] != b[i] {
				return a[i] < b[i]
			}
		}
		return false
	}
	// canonicalise first
	best = append([]int(nil), vals...)
	if c, ok := try(best); ok {
		best = c
	} else {
		return vals, runs
	}
	for improved := true; improved && runs < maxRuns; {
		improved = false
		// 1. delete blocks, large to small, from the end
		for size := len(best) / 2; size >= 1; size /= 2 {
			for start := len(best) - size; start >= 0 && runs < maxRuns; {
				if start+size > len(best) {
					start = len(best) - size
					if start < 0 {
						break
					}
				}
				cand := append(append([]int(nil), best[:start]...), best[start+size:]...)
				if c, ok := try(cand); ok && less(c, best) {
					best = c
					improved = true
					start -= size
				} else {
					start--
					if size > 4 {
						start -= size/2 - 1
					}
				}
			}
		}
		// 2. zero blocks
		for size := 8; size >= 1; size /= 2 {
			for start := 0; start+size <= len(best) && runs < maxRuns; start += size {
				allZero := true
				for _, v := range best[start : start+size] {
					if v != 0 {
						allZero = false
						break
					}
				}
				if allZero {
					continue
				}
				cand := append([]int(nil), best...)
				for i := start; i < start+size; i++ {
					cand[i] = 0
				}
				if c, ok := try(cand); ok && less(c, best) {
					best = c
					improved = true
				}
			}
		}
		// 3. lower single values
		for i := 0; i < len(best) && runs < maxRuns; i++ {
			for best[i] > 0 && runs < maxRuns {
				cand := append([]int(nil), best...)
				if cand[i] > 1 {
					cand[i] /= 2
				} else {
					cand[i] = 0
				}
				c, ok := try(cand)
				if ok && less(c, best) {
					best = c
					improved = true
					if i >= len(best) {
						break
					}
					continue
				}
				if best[i] > 1 {
					cand = append([]int(nil), best...)
					cand[i]--
					if c, ok := try(cand); ok && less(c, best) {
						best = c
						improved = true
						if i >= len(best) {
							break
						}
						continue
					}
				}
				break
			}
		}
	}
	return best, runs
}
