//go:build !race

package sim

const RaceEnabled = false

func raceDisable() {}
func raceEnable()  {}
