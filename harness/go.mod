module verif/harness

go 1.24

require (
	github.com/anishathalye/porcupine v1.3.0
	github.com/tigerwill90/fox v0.0.0
)

replace github.com/tigerwill90/fox => /repo
