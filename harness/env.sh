# source me: toolchain environment for the harness
export GOTOOLCHAIN=local GOFLAGS=-mod=mod GOPROXY=off
export GO=go1.26.8
export GOFLAGS="-mod=mod -tags=verif"
