package props

import (
	"strconv"
	"fmt"
	"net/http"
	"net/url"
	"strings"

	"github.com/tigerwill90/fox"

	"verif/harness/model"
	"verif/harness/sim"
	"verif/harness/world"
)

var methodsC08 = []string{"GET", "POST", "CONNECT", "HEAD"}

func init() {
	register(&Prop{
		ID: "C08", Level: "exploration",
		Rule: "one case = a router shaped by a seeded mutation history over a pool as in C01, with global and per-route ignore/redirect trailing-slash options drawn per run and per route, methods GET/POST/CONNECT/HEAD; probes are instantiated patterns with the trailing slash toggled, perturbed, ending in a run of slashes, the empty path of an absolute-form target without a path (one slash short of the root pattern, which one pool in five holds), and (sub-batch) with percent-encoded targets whose parameter values contain ':', '?', '#', '%', space and non-ASCII bytes, with and without query strings. Oracle per probe: the reference dispatcher (no action on a direct match; the highest-priority slash-adjusted route with the parameters of the adjusted match; hostname-mode action before path-only fallback; ignore serves; redirect only for clean paths, never for CONNECT or '/', 301 for GET else 308); every redirect is followed inside the simulation: Location is resolved against the request URL, must stay on the same host, keep the query string, and the resolved request must be served directly by the adjusted route with the adjusted parameters. Lookup/Reverse must report the same route and tsr flag. Metamorphic clause: a second router holding only the routes that match the path or its slash-adjusted form gives the same outcome. Non-trivial: at least 2 probes had no direct match but a slash-adjusted candidate; distinct = hash of (final set, options, probes).",
		Run:  runC08, Quick: 96000, Thorough: 12800000,
		Real: commonReal, Stub: commonStub,
		Tolerances: []string{"leading_slash_capture as in C01", "a redirect is not followed when the request's escaped path contains a byte net/url would itself escape (e.g. |): reference resolution re-encodes it"},
		Domain:     []string{"as C01; reserved-character values only inside parameter captures; request targets are valid request-URIs (a literal '?' or '#' in a path is always percent-encoded)"},
	})
}

type servedObs struct {
	kind   model.Kind
	tag    int
	params string
	status int
	loc    string
}

func (rr *routingRun) serveProbe(p world.Probe, rawPath, rawQuery string) (world.ServeObs, servedObs) {
	// (one request in five declares HTTP/1.0: the documented statuses do not depend on the announced protocol)
	rr.w.HTTP10 = rr.src.Intn("http10", 5) == 4
	obs := rr.w.Serve(p, rawPath, rawQuery, nil)
	rr.w.HTTP10 = false
	so := servedObs{kind: obs.Kind, tag: -1, status: obs.Status, loc: obs.Location}
	if obs.Kind == model.KRoute {
		so.tag = obs.Hit.Tag
		so.params = world.FmtParams(obs.Hit.Params)
	}
	return obs, so
}

func fmtServed(sv model.Served) string {
	switch sv.Kind {
	case model.KRoute:
		return fmt.Sprintf("route %s#%d tsr=%v [%s]", sv.Route.Pattern, sv.Route.Tag, sv.TSR, world.FmtParams(sv.Params))
	case model.KRedirect:
		return fmt.Sprintf("redirect %d to %s (route %s#%d [%s])", sv.Status, sv.Adjusted, sv.Route.Pattern, sv.Route.Tag, world.FmtParams(sv.Params))
	}
	return "unmatched"
}

func fmtObs(o world.ServeObs) string {
	switch o.Kind {
	case model.KRoute:
		return fmt.Sprintf("route %s#%d [%s]", o.Hit.Pattern, o.Hit.Tag, world.FmtParams(o.Hit.Params))
	case model.KRedirect:
		return fmt.Sprintf("redirect %d Location=%q", o.Status, o.Location)
	case -1:
		return "no handler ran"
	}
	return fmt.Sprintf("unmatched(%s %d)", o.Kind, o.Status)
}

// checkTSR is C08's oracle for one probe.
func (rr *routingRun) checkTSR(p world.Probe, rawPath, rawQuery, where string) {
	res := rr.res
	matchPath := p.Path
	if rawPath != "" {
		matchPath = rawPath
	}
	mcfg := rr.w.ModelCfg()
	mA := rr.set.Match(p.Method, p.Host, matchPath, model.MatchOpts{})
	mB := rr.set.Match(p.Method, p.Host, matchPath, model.MatchOpts{AllowLeadingSlashCapture: true})
	amb := fmtMatch(mA) != fmtMatch(mB)
	if amb {
		res.inc("tolerance_leading_slash_capture")
	}
	res.Checks++
	if mA.Route != nil && mA.TSR {
		res.inc("probes_with_tsr_candidate")
		if mA.ViaHost {
			res.inc("probe_tsr_via_host")
		}
		if p.Path == "" {
			res.inc("empty_path_with_root_candidate")
		}
	}
	// 1. which route (and flag, and parameters) does fox select?
	lk := rr.lookupRaw(p, rawPath)
	ans := lookupAnswer{tag: lk.Tag, tsr: lk.TSR, params: world.FmtParams(lk.Params), hasPar: true}
	eff := mA // the routing result the dispatch rules are applied to
	deviates := false
	switch {
	case ans.same(mA):
	case amb && ans.same(mB):
		eff = mB
	case amb && lk.Tag >= 0 && leadingSlashValue(lk.Params):
		// documented ambiguity: the answer relies on a capture starting with '/'; only the dispatch rules are checked
		eff = model.MatchResult{Route: rr.findByTag(lk.Tag), Params: lk.Params, TSR: lk.TSR}
	default:
		class, note := rr.knownTSR(p, matchPath, ans, mA, lk)
		detail := rr.tsrDetail(p, rawPath, rawQuery, where, "Lookup", lk.String(), fmtMatch(mA))
		if class == "" {
			res.fail("C08/wrong-candidate", "%s", detail)
			return
		}
		res.known(class, detail+" ["+note+"]")
		if res.failed() {
			return
		}
		deviates = true
		eff = model.MatchResult{Route: rr.findByTag(lk.Tag), Params: lk.Params, TSR: lk.TSR}
		if lk.Tag == -1 {
			eff = model.MatchResult{}
		}
	}
	// 2. Reverse agrees with Lookup (Reverse takes a path string and reads the empty string as "/": not compared)
	if rawPath == "" && p.Path != "" {
		rv := world.ObsReverse(rr.w.R, p)
		if rv.Tag != lk.Tag || rv.TSR != lk.TSR {
			res.fail("C08/entry-points-disagree", "%s", rr.tsrDetail(p, rawPath, rawQuery, where, "Reverse", rv.String(), "Lookup says "+lk.String()))
			return
		}
	}
	// 3. the dispatch rules applied to that routing result
	sv := rr.set.Dispatch(mcfg, p.Method, p.Host, matchPath, p.Path, eff, model.MatchOpts{})
	obs, _ := rr.serveProbe(p, rawPath, rawQuery)
	if obs.Panic != nil {
		res.fail("C08/panic", "%s: ServeHTTP %v panicked: %v", where, p, obs.Panic)
		return
	}
	why := ""
	switch sv.Kind {
	case model.KRoute:
		if obs.Kind != model.KRoute || obs.Hit.Tag != sv.Route.Tag || world.FmtParams(obs.Hit.Params) != world.FmtParams(sv.Params) {
			why = "served"
		} else {
			res.inc("outcome_route")
			if sv.TSR {
				res.inc("outcome_ignored_trailing_slash")
			}
		}
	case model.KRedirect:
		switch {
		case obs.Kind != model.KRedirect || obs.Status != sv.Status:
			why = "redirect"
		case obs.Hit.HasRoute || obs.Hit.Pattern != "" || len(obs.Hit.Params) > 0 || obs.Hit.Scope != fox.RedirectHandler:
			why = "redirect-context"
		default:
			if deviates {
				// the candidate itself is a listed known finding: where its redirect leads is not judged again
				res.inc("redirect_not_followed_known_candidate")
			} else if amb && leadingSlashValue(sv.Params) {
				// the adjusted match itself depends on the ambiguous reading: the redirect is not followed
				res.inc("tolerance_redirect_not_followed")
			} else if d := rr.followRedirect(p, rawPath, rawQuery, obs.Location, sv); d != "" {
				why = "location: " + d
			}
			if why == "" {
				res.inc("outcome_redirect")
			}
		}
	default:
		if obs.Kind == model.KRoute || obs.Kind == model.KRedirect {
			why = "unmatched"
		} else {
			res.inc("outcome_unmatched")
		}
	}
	if why != "" {
		res.fail("C08/"+strings.SplitN(why, ":", 2)[0], "%s", rr.tsrDetail(p, rawPath, rawQuery, where, "ServeHTTP ("+why+")", fmtObs(obs), fmtServed(sv)))
	}
}

// checkCandidateOn asks only the first question of checkTSR (which route, flag and parameters) of another reader.
func (rr *routingRun) checkCandidateOn(rd world.Reader, p world.Probe, where string) {
	mA := rr.set.Match(p.Method, p.Host, p.Path, model.MatchOpts{})
	mB := rr.set.Match(p.Method, p.Host, p.Path, model.MatchOpts{AllowLeadingSlashCapture: true})
	amb := fmtMatch(mA) != fmtMatch(mB)
	rr.res.Checks++
	lk := world.ObsLookup(rd, p)
	ans := lookupAnswer{tag: lk.Tag, tsr: lk.TSR, params: world.FmtParams(lk.Params), hasPar: true}
	if ans.same(mA) || (amb && ans.same(mB)) || (amb && lk.Tag >= 0 && leadingSlashValue(lk.Params)) {
		rr.res.inc("candidates_checked_inside_write_txn")
		return
	}
	rr.res.fail("C08/wrong-candidate", "%s", rr.tsrDetail(p, "", "", where, "Txn.Lookup", lk.String(), fmtMatch(mA)))
}

func (rr *routingRun) lookupRaw(p world.Probe, rawPath string) world.RouteObs {
	req := world.NewRequest(p.Method, p.Host, p.Path, rawPath, "", nil)
	rt, cc, tsr := rr.w.R.Lookup(world.NewRW(world.NewConn()), req)
	if rt == nil {
		return world.RouteObs{Tag: -1}
	}
	o := world.RouteObs{Tag: world.TagOf(rt), Pattern: rt.Pattern(), TSR: tsr, HasParams: true, Params: world.CollectParams(cc)}
	cc.Close()
	return o
}

// followRedirect resolves Location against the request URL and serves the resolved request: it must be a direct match
// of the adjusted route with the adjusted parameters, on the same host, with the query string kept.
// unescapeHighBytes undoes the percent-encoding of bytes >= 0x80 only: a Location header has to be ASCII, so a query
// with such bytes comes back with them (and nothing else) encoded.
func unescapeHighBytes(q string) string {
	var sb strings.Builder
	for i := 0; i < len(q); i++ {
		if q[i] == '%' && i+2 < len(q) {
			if v, err := strconv.ParseUint(q[i+1:i+3], 16, 8); err == nil && v >= 0x80 {
				sb.WriteByte(byte(v))
				i += 2
				continue
			}
		}
		sb.WriteByte(q[i])
	}
	return sb.String()
}

func (rr *routingRun) followRedirect(p world.Probe, rawPath, rawQuery, location string, sv model.Served) string {
	if location == "" {
		return "no Location header"
	}
	base := &url.URL{Scheme: "http", Host: p.Host, Path: p.Path, RawPath: rawPath, RawQuery: rawQuery}
	if base.Host == "" {
		base.Host = "sim.invalid"
	}
	loc, err := url.Parse(location)
	if err != nil {
		return fmt.Sprintf("Location %q does not parse: %v", location, err)
	}
	if rawPath != "" && base.EscapedPath() != rawPath {
		// the escaped form carries a byte net/url itself would escape (e.g. '|'): reference resolution re-encodes the
		// path, so the resolved request cannot be compared byte for byte with the adjusted one
		rr.res.inc("tolerance_escaped_path_not_canonical_for_net_url")
		return ""
	}
	target := base.ResolveReference(loc)
	if target.Scheme != "http" || target.Host != base.Host {
		return fmt.Sprintf("Location %q leads to %s://%s, away from the request host", location, target.Scheme, target.Host)
	}
	if unescapeHighBytes(target.RawQuery) != unescapeHighBytes(rawQuery) {
		return fmt.Sprintf("Location %q carries query %q, the request had %q", location, target.RawQuery, rawQuery)
	}
	// the resolved request
	np := world.Probe{Method: p.Method, Host: p.Host, Path: target.Path}
	nraw := ""
	if target.RawPath != "" && target.RawPath != target.Path {
		nraw = target.RawPath
	}
	got := nraw
	if got == "" {
		got = np.Path
	}
	if got != sv.Adjusted {
		return fmt.Sprintf("Location %q resolves to path %q, the slash-adjusted path is %q", location, got, sv.Adjusted)
	}
	// the adjusted path itself may fall under the documented ambiguity (a catch-all capturing a value starting with '/')
	if fmtMatch(rr.set.Match(p.Method, p.Host, got, model.MatchOpts{})) != fmtMatch(rr.set.Match(p.Method, p.Host, got, model.MatchOpts{AllowLeadingSlashCapture: true})) {
		rr.res.inc("tolerance_leading_slash_capture")
		return ""
	}
	obs := rr.w.Serve(np, nraw, rawQuery, nil)
	if obs.Kind != model.KRoute || obs.Hit.Tag != sv.Route.Tag || world.FmtParams(obs.Hit.Params) != world.FmtParams(sv.Params) {
		return fmt.Sprintf("following Location %q (path %q) gives %s, not the adjusted route %s#%d [%s]", location, got, fmtObs(obs), sv.Route.Pattern, sv.Route.Tag, world.FmtParams(sv.Params))
	}
	return ""
}

func (rr *routingRun) tsrDetail(p world.Probe, rawPath, rawQuery, where, entry, got, want string) string {
	target := p.Host + p.Path
	if rawPath != "" {
		target = p.Host + rawPath
	}
	if rawQuery != "" {
		target += "?" + rawQuery
	}
	var opts []string
	for _, r := range rr.set.Routes() {
		if r.Method == p.Method {
			o := ""
			if r.IgnoreTS {
				o = "(ignore)"
			} else if r.RedirectTS {
				o = "(redirect)"
			}
			opts = append(opts, fmt.Sprintf("%s#%d%s", r.Pattern, r.Tag, o))
		}
	}
	return fmt.Sprintf("%s: %s %s %s = %s; the documented rules give %s; routes: %s", where, entry, p.Method, target, got, want, strings.Join(opts, " "))
}

// splitEdge is the structural predicate of known finding C08/tsr-missed-split-edge: the text of route r up to the
// toggled slash is a proper prefix of another registered route of the same method that continues with a byte other
// than '/', so the radix edge is split in the middle of r's last segment and none of fox's three detection sites sees
// the candidate.
func splitEdge(set *model.Set, r *model.Route, addSlash bool) bool {
	base := r.Pattern
	if addSlash {
		base = strings.TrimSuffix(base, "/")
	}
	for _, q := range set.Routes() {
		if q == r || q.Method != r.Method {
			continue
		}
		if strings.HasPrefix(q.Pattern, base) && len(q.Pattern) > len(base) && q.Pattern[len(base)] != '/' {
			return true
		}
	}
	return false
}

// lookupAnswer is fox's answer at Lookup level.
type lookupAnswer struct {
	tag    int // -1 none
	tsr    bool
	params string
	hasPar bool
}

func (a lookupAnswer) same(m model.MatchResult) bool {
	if m.Route == nil {
		return a.tag == -1
	}
	if a.tag != m.Route.Tag || a.tsr != m.TSR {
		return false
	}
	return !a.hasPar || a.params == world.FmtParams(m.Params)
}

// asIfMissed reports whether fox's answer is exactly what the documented rules give once the slash-adjusted candidates
// that satisfy the split-edge predicate are taken out of consideration (known finding: those candidates are not
// detected, fox then offers the next candidate, falls back to the path-only routes, or finds nothing).
func (rr *routingRun) asIfMissed(p world.Probe, matchPath string, ans lookupAnswer, lk world.RouteObs) (bool, string) {
	set := rr.set.Clone()
	addSlash := !strings.HasSuffix(matchPath, "/")
	var missed []string
	for i := 0; i < 6; i++ {
		m := set.Match(p.Method, p.Host, matchPath, model.MatchOpts{})
		if len(missed) > 0 {
			// what remains is judged like any other answer, including the documented '/'-capture ambiguity
			mB := set.Match(p.Method, p.Host, matchPath, model.MatchOpts{AllowLeadingSlashCapture: true})
			if ans.same(m) || ans.same(mB) || (fmtMatch(m) != fmtMatch(mB) && lk.Tag >= 0 && leadingSlashValue(lk.Params)) {
				return true, strings.Join(missed, ", ")
			}
		}
		if m.Route == nil || !m.TSR || !splitEdge(rr.set, m.Route, addSlash) {
			return false, ""
		}
		missed = append(missed, m.Route.Pattern)
		set.Delete(m.Route.Method, m.Route.Pattern)
	}
	return false, ""
}

// spuriousParentLeaf is the structural predicate of known finding C08/tsr-spurious-parent-leaf: the path ends with
// '/', fox recommends removing it in favour of route r, yet r does not match the slash-adjusted path; r alone matches a
// proper prefix of the path (r is the leaf parent of an intermediate node whose key is longer than "/").
func (rr *routingRun) spuriousParentLeaf(p world.Probe, matchPath string, r *model.Route) bool {
	if r == nil || !strings.HasSuffix(matchPath, "/") {
		return false
	}
	single := model.NewSet()
	single.Insert(r)
	if m := single.Match(p.Method, p.Host, matchPath, model.MatchOpts{AllowLeadingSlashCapture: true}); m.Route != nil {
		return false // it does match (directly or slash-adjusted): not this class
	}
	for k := len(matchPath) - 1; k > 0; k-- {
		if m := single.Match(p.Method, p.Host, matchPath[:k], model.MatchOpts{}); m.Route != nil && !m.TSR {
			return true
		}
	}
	return false
}

// staleTSRParams is the structural predicate of known finding C08/tsr-params-stale: fox offers the documented
// slash-adjusted route, but the parameters it reports contain the documented ones as a subsequence plus entries left
// over from another branch of the walk.
func staleTSRParams(ans lookupAnswer, lk world.RouteObs, want model.MatchResult) bool {
	if want.Route == nil || !want.TSR || ans.tag != want.Route.Tag || !ans.tsr {
		return false
	}
	if world.FmtParams(lk.Params) == world.FmtParams(want.Params) {
		return false
	}
	// (ii) the route has an infix catch-all: the first split that produced any candidate is kept, with the parameters
	// collected so far, even when only a later split matches the adjusted path
	for i, t := range want.Route.Pat.Toks {
		if t.Kind == model.TCatch && i < len(want.Route.Pat.Toks)-1 {
			return true
		}
	}
	// (i) leftover entries around the documented ones
	if len(lk.Params) <= len(want.Params) {
		return false
	}
	i := 0
	for _, p := range lk.Params {
		if i < len(want.Params) && p == want.Params[i] {
			i++
		}
	}
	return i == len(want.Params)
}

// knownTSR decides whether a Lookup-level deviation belongs to a listed known finding.
func (rr *routingRun) knownTSR(p world.Probe, matchPath string, ans lookupAnswer, want model.MatchResult, lk world.RouteObs) (class, note string) {
	if staleTSRParams(ans, lk, want) {
		return "C08/tsr-params-stale", "extra parameters reported"
	}
	if ok, missed := rr.asIfMissed(p, matchPath, ans, lk); ok {
		return "C08/tsr-missed-split-edge", "undetected candidate(s): " + missed
	}
	if ans.tag >= 0 && ans.tsr {
		if r := rr.findByTag(ans.tag); r != nil && rr.spuriousParentLeaf(p, matchPath, r) {
			// everything else must be as documented once that recommendation is discarded: the reference has no direct match
			// (in hostname mode the spurious recommendation also pre-empts the fallback to path-only routes)
			if want.Route == nil || want.TSR || (r.Pat.Host != "" && !want.ViaHost) {
				return "C08/tsr-spurious-parent-leaf", "recommended " + r.Pattern
			}
		}
	}
	return "", ""
}

// the last four are clean in their escaped form while their decoding is not (an escaped slash next to a real one, escaped dot segments)
var reservedValues = []string{"https:evil.com", "a%3Fb", "a%23b", "a%25b", "a%20b", "%C3%A9", "a:b", ":42", ":", "..cache", "...", "..42", "x%2Fy", "a%2F", "%2Fb", "%2E%2E", "%2E"}

func runC08(src sim.Source, o Opts) *Result {
	res := newResult()
	rr := &routingRun{src: src, res: res, f: routingFocus{prop: "C08", tsOptions: true, methods: methodsC08, reserved: src.Intn("reserved", 4) == 3}}
	if !rr.build() {
		return res
	}
	if rr.f.reserved {
		res.inc("runs_reserved_characters")
	}
	rounds := 2 + src.Intn("rounds", 3)
	var probeKeys []string
	for r := 0; r < rounds && !res.failed(); r++ {
		rr.mutate(1 + src.Intn("mutations", 6))
		if rr.skip {
			res.inc("runs_stopped_setup_write_disagrees_with_map_model")
			break
		}
		nprobes := 3 + src.Intn("nprobes", 8)
		for i := 0; i < nprobes && !res.failed(); i++ {
			rr.churnPool()
			p := world.GenProbe(src, rr.pool, rr.f.methods)
			// bias towards the slash-toggled form of something that matches
			if src.Intn("toggle", 3) == 0 && len(p.Path) > 1 {
				if strings.HasSuffix(p.Path, "/") {
					p.Path = p.Path[:len(p.Path)-1]
				} else {
					p.Path += "/"
				}
			}
			if src.Intn("emptypath", 16) == 0 {
				// an absolute-form request target without a path ("GET http://host HTTP/1.1") arrives with an empty
				// URL path: a path other than '/', one slash short of the root
				p.Path = ""
				res.inc("probes_with_empty_path")
			}
			hasCatchAll := false
			for _, rt := range rr.set.Routes() {
				if rt.Method == p.Method && strings.Contains(rt.Pattern, "*") {
					hasCatchAll = true // what a catch-all captures from a path with empty segments is outside the properties
				}
			}
			if !hasCatchAll && src.Intn("manyslashes", 8) == 0 {
				// a run of slashes at the end: removing ONE slash does not make it match, so no action may be taken
				p.Path = strings.TrimRight(p.Path, "/") + sim.Pick(src, "slashrun", []string{"//", "///"})
			}
			rawPath, rawQuery := "", ""
			if rr.f.reserved {
				if src.Intn("withquery", 2) == 1 {
					rawQuery = sim.Pick(src, "query", []string{"x=1", "x=1&y=a%2Fb", "q=%3F", "q=caf\u00e9&lang=fr", "price=10\u20ac", "q=\xe9t\xe9&x=1", "q=%C3%A9"})
				}
				if src.Intn("reservedvalue", 2) == 1 {
					segs := strings.Split(p.Path, "/")
					if len(segs) > 1 {
						i := 1 + src.Intn("rseg", len(segs)-1)
						if segs[i] != "" {
							segs[i] = sim.Pick(src, "rval", reservedValues)
							raw := strings.Join(segs, "/")
							if u, err := url.ParseRequestURI(raw); err == nil {
								p.Path = u.Path
								if u.RawPath != "" {
									rawPath = u.RawPath
								}
							}
						}
					}
				}
			}
			probeKeys = append(probeKeys, fmt.Sprint(p, rawPath, rawQuery))
			rr.checkTSR(p, rawPath, rawQuery, fmt.Sprintf("round %d", r))
			if !res.failed() && rawPath == "" && !strings.Contains(p.Path, "//") && src.Intn("txnview", 6) == 5 {
				// the same question asked through an open write transaction that has registered further routes (its
				// lookups run on contexts sized for the committed tree): route, flag and parameters of the candidate
				txn := rr.w.R.Txn(true)
				saved := rr.set
				rr.set = rr.set.Clone()
				okOps := true
				for k, n := 0, 1+src.Intn("txnwrites", 3); k < n && okOps; k++ {
					rr.nextTag++
					op := genWOp(src, rr.pool, rr.f.methods, rr.nextTag, false, 0)
					op.Kind = "handle"
					okOps = sameOut(applyFox(rr.w, txn, rr.pool, op), applyModel(rr.set, rr.cfg, rr.pool, op))
				}
				if okOps {
					rr.checkCandidateOn(txn, p, fmt.Sprintf("round %d (inside a write txn with uncommitted routes)", r))
				}
				txn.Abort()
				rr.set = saved
			}
			if !res.failed() && src.Intn("metamorphic", 6) == 5 {
				rr.checkIrrelevance(p, rawPath, rawQuery)
			}
		}
	}
	for _, cc := range rr.held {
		cc.Close()
	}
	res.Nontrivial = res.Stats["probes_with_tsr_candidate"] >= 2
	res.CaseKey = hashStrings(append([]string{rr.cfg.String(), rr.set.Fingerprint()}, probeKeys...)...)
	res.Hash = hashStrings(fmt.Sprint(res.Checks), rr.set.Fingerprint(), fmt.Sprint(rr.history), fmt.Sprint(probeKeys))
	res.Steps = len(rr.history)
	if o.Trace || res.Class != "" {
		rr.describe()
	}
	return res
}

// checkIrrelevance: routes that match neither the path nor its slash-adjusted form never change the outcome. A second
// real router receives only the relevant routes; both must answer alike (no reference matcher involved in the
// comparison itself; the model only selects which routes are relevant, one route at a time).
func (rr *routingRun) checkIrrelevance(p world.Probe, rawPath, rawQuery string) {
	matchPath := p.Path
	if rawPath != "" {
		matchPath = rawPath
	}
	w2, err := world.Build(rr.cfg)
	if err != nil {
		return
	}
	kept := 0
	for _, r := range rr.set.Routes() {
		if r.Method != p.Method {
			continue
		}
		single := model.NewSet()
		single.Insert(r)
		if m := single.Match(p.Method, p.Host, matchPath, model.MatchOpts{AllowLeadingSlashCapture: true}); m.Route == nil {
			continue
		}
		ts := 3
		if r.IgnoreTS {
			ts = 1
		} else if r.RedirectTS {
			ts = 2
		}
		if _, err := w2.R.Handle(r.Method, r.Pattern, world.Handler(r.Tag), world.FoxOpts(r.Tag, world.RouteOpt{TS: ts})...); err != nil {
			return
		}
		kept++
	}
	if kept == rr.set.Len() {
		return
	}
	rr.res.inc("metamorphic_irrelevant_routes_removed")
	a := rr.w.Serve(p, rawPath, rawQuery, nil)
	b := w2.Serve(p, rawPath, rawQuery, nil)
	ka, kb := a.Kind, b.Kind
	norm := func(k model.Kind) model.Kind {
		if k != model.KRoute && k != model.KRedirect {
			return model.KNoRoute
		}
		return k
	}
	if norm(ka) != norm(kb) || (ka == model.KRoute && (a.Hit.Tag != b.Hit.Tag || world.FmtParams(a.Hit.Params) != world.FmtParams(b.Hit.Params))) ||
		(ka == model.KRedirect && (a.Status != b.Status || a.Location != b.Location)) {
		detail := fmt.Sprintf("%s %s%s: full router answers %s, a router holding only the %d route(s) that match the path or its slash-adjusted form answers %s; routes: %s", p.Method, p.Host, matchPath, fmtObs(a), kept, fmtObs(b), setString(rr.set, p.Method))
		// known finding: removing siblings changes how the radix edge is split, hence which candidates fox detects
		lk := rr.lookupRaw(p, rawPath)
		ans := lookupAnswer{tag: lk.Tag, tsr: lk.TSR, params: world.FmtParams(lk.Params), hasPar: true}
		if class, _ := rr.knownTSR(p, matchPath, ans, rr.set.Match(p.Method, p.Host, matchPath, model.MatchOpts{}), lk); class != "" {
			rr.res.known(class, detail)
			return
		}
		rr.res.fail("C08/irrelevant-routes-matter", "%s", detail)
	}
}

var _ = http.StatusOK
