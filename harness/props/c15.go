package props

import (
	"io"
	"log/slog"
	"context"
	"errors"
	"fmt"
	"net"
	"net/http"
	"net/url"
	"os"
	"slices"
	"strings"
	"syscall"

	"github.com/tigerwill90/fox"

	"verif/harness/model"
	"verif/harness/sim"
	"verif/harness/world"
)

func init() {
	register(&Prop{
		ID: "C15", Level: "fault_enumeration",
		Rule: "one case = a router with CustomRecoveryWithLogHandler(capturing handler, DefaultHandleRecovery) over all handler kinds, generated routes, request headers carrying unique secret tokens under credential-bearing names in canonical, lower-case and mixed capitalisation (drawn; some with two values or under two capitalisations at once; values of 2, 3 or 12+ bytes) next to ordinary headers, a drawn request-target form (origin-form, absolute-form, no host), and a generated Updates/View program; for that configuration ALL combinations are enumerated of panic value (string, error, wrapped error, nil, custom type, http.ErrAbortHandler bare and wrapped, net.OpError with broken pipe / connection reset / other errno, directly or one wrapping layer down) x response progress at the time of the panic (nothing, header only, partial body, after a failed write) x panic site (route handler, route-specific middleware, route handler reached through an ignored trailing slash, a second fox router without Recovery mounted in the route handler, no-route, no-method and options handlers), a panic after every prefix of the Updates/View program run inside a handler, and a panic raised by a middleware constructor while Router.Handle/Update build a route inside a handler (user code running under the writer lock). Oracle: ServeHTTP returns normally (ErrAbortHandler re-raised as the identical value); the simulated connection shows 500 iff nothing had been written and the value is not a broken-connection error, nothing at all for broken connections, an untouched partial response otherwise; exactly one diagnostic record naming route (or scope), parameters and request line and containing none of the secret values; afterwards the routes are unchanged, a follow-up request is served and a write issued under the scheduler completes (writer lock released, else deadlock). One run in four repeats the route-handler site through CustomRecovery's built-in log handler on a route whose wildcards are named like log attributes (latency, status, error, level, time, msg, ...), reading the record back from standard error. Ordinary headers named like the beginning of a credential header (Proxy, Cook, X-CSRF) are added now and then. Panic values include typed nil pointers (error, Stringer, *net.OpError, *url.URL) and values whose Error/String method panics. Non-trivial: every run (all combinations are executed); distinct = hash of (configuration, header capitalisation, program).",
		Run:  runC15, Quick: 4000, Thorough: 480000,
		Real: []string{"Recovery middleware (recovery.go)", "Router.Updates/View abort paths", "recorder ResponseWriter", "ServeHTTP dispatch", "built-in log handler (internal/slogpretty) in one run of four: its output goes to file descriptor 2, pointed at a private scratch file for the duration of the call"},
		Stub: []string{"slog sink: capturing handler (built-in handler: see real)", "net/http connection: simulated connection", "handlers and middleware that panic on script"},
	})
}

type customPanic struct{ n int }

// panic values whose own methods panic: a typed nil pointer (the usual way: panic(err) with err a nil *T in an error
// interface), and a value whose Error or String method fails outright
type derefErr struct{ msg string }

func (e *derefErr) Error() string { return e.msg }

type derefStringer struct{ msg string }

func (e *derefStringer) String() string { return e.msg }

// wrapperPanic stands for a panic the runtime raises INSIDE a compiler-generated method wrapper (a value method called
// through an interface holding a typed nil pointer): the frame on top of the stack has no source file path.
type wrapperPanic struct{}

type valueText struct{ s string }

func (v valueText) Text() string { return v.s }

type texter interface{ Text() string }

// (a package-level variable: the call below stays a dynamic one, through the generated (*valueText).Text wrapper)
var nilTexter texter = (*valueText)(nil)

// raise panics with v - or, for wrapperPanic, lets the runtime do it from the generated wrapper.
func raise(v any) {
	if _, ok := v.(wrapperPanic); ok {
		_ = nilTexter.Text()
	}
	panic(v)
}

type explodingErr struct{}

func (explodingErr) Error() string { panic("Error method of the panic value panics") }

type explodingStringer struct{}

func (explodingStringer) String() string { panic("String method of the panic value panics") }

func panicValues() []struct {
	Name   string
	V      any
	Abort  bool
	Broken bool
} {
	op := func(errno syscall.Errno) any {
		return &net.OpError{Op: "write", Net: "tcp", Err: &os.SyscallError{Syscall: "write", Err: errno}}
	}
	return []struct {
		Name   string
		V      any
		Abort  bool
		Broken bool
	}{
		{"string", "boom", false, false},
		{"error", errors.New("boom error"), false, false},
		{"wrapped-error", fmt.Errorf("outer: %w", errors.New("inner")), false, false},
		{"nil", nil, false, false},
		{"custom", customPanic{7}, false, false},
		{"abort", http.ErrAbortHandler, true, false},
		{"wrapped-abort", fmt.Errorf("wrapped: %w", http.ErrAbortHandler), true, false},
		{"broken-pipe", op(syscall.EPIPE), false, true},
		{"conn-reset", op(syscall.ECONNRESET), false, true},
		{"other-errno", op(syscall.ENOSPC), false, false},
		{"nil-error-pointer", (*derefErr)(nil), false, false},
		{"nil-stringer-pointer", (*derefStringer)(nil), false, false},
		{"nil-operror-pointer", (*net.OpError)(nil), false, false},
		{"nil-url-pointer", (*url.URL)(nil), false, false},
		{"exploding-error", explodingErr{}, false, false},
		{"exploding-stringer", explodingStringer{}, false, false},
		{"stringer", &derefStringer{"a stringer"}, false, false},
		{"runtime-panic-in-generated-wrapper", wrapperPanic{}, false, false},
		// the broken-connection errno one wrapping layer further down the OpError's chain
		{"broken-pipe-wrapped", &net.OpError{Op: "write", Net: "tcp", Err: fmt.Errorf("flush: %w", &os.SyscallError{Syscall: "write", Err: syscall.EPIPE})}, false, true},
		// ... and reported by the system call error's text only (other platforms' spelling, non-errno causes)
		{"broken-pipe-by-message", &net.OpError{Op: "write", Net: "tcp", Err: &os.SyscallError{Syscall: "write", Err: errors.New("Broken pipe")}}, false, true},
		{"conn-reset-by-message", &net.OpError{Op: "read", Net: "tcp", Err: &os.SyscallError{Syscall: "read", Err: fmt.Errorf("tls record: %w", errors.New("connection reset by peer"))}}, false, true},
		{"conn-reset-nested-operror", &net.OpError{Op: "write", Net: "tcp", Err: &net.OpError{Op: "write", Net: "tcp", Err: &os.SyscallError{Syscall: "write", Err: syscall.ECONNRESET}}}, false, true},
	}
}

// panickingSource yields one chunk, then calls then (which panics) on the next Read.
type panickingSource struct {
	chunk string
	then  func()
	done  bool
}

func (p *panickingSource) Read(b []byte) (int, error) {
	if p.done {
		p.then()
	}
	p.done = true
	return copy(b, p.chunk), nil
}

var secretNames = []string{"Authorization", "Proxy-Authorization", "Cookie", "Set-Cookie", "X-CSRF-Token", "X-Vault-Token"}

func capitalise(s sim.Source, name string) (string, string) {
	switch s.Intn("cap", 3) {
	case 0:
		return http.CanonicalHeaderKey(name), "canonical"
	case 1:
		return strings.ToLower(name), "lower"
	default:
		b := []byte(strings.ToLower(name))
		for i := range b {
			if i%2 == 0 && b[i] >= 'a' && b[i] <= 'z' {
				b[i] -= 32
			}
		}
		return string(b), "mixed"
	}
}

func runC15(src sim.Source, o Opts) *Result {
	res := newResult()
	res.Case["prop"] = "C15"
	capt := &world.Capture{}
	cfg := world.Cfg{NoMethod: true, AutoOptions: true, GlobalTS: src.Intn("gts", 3), CacheSize: sim.Pick(src, "cache", []int{0, 1, 3})}
	// the function that answers a recovered panic: fox's default one, or a custom one that writes a page of its own
	// (it must only be called when an answer is due: nothing written yet, connection not broken)
	if src.Intn("logdisabled", 4) == 3 {
		capt.MinLevel = slog.LevelError + 4 // the diagnostic record is dropped by the handler; everything else is as usual
		res.inc("config_log_handler_disabled")
	}
	recoverFn := fox.DefaultHandleRecovery
	if src.Intn("customrecovery", 3) == 0 {
		recoverFn = func(c fox.Context, _ any) {
			c.SetHeader("X-Recovered", "1")
			http.Error(c.Writer(), "custom failure page", http.StatusInternalServerError)
		}
		res.inc("config_custom_recovery_func")
	}
	// one run in three installs the Recovery middleware twice (router-wide plus a second layer, as with a route-level
	// Recovery under a global one): the inner layer answers ordinary panics, the abort sentinel passes both
	recs := []fox.MiddlewareFunc{fox.CustomRecoveryWithLogHandler(capt, recoverFn)}
	if src.Intn("tworecoveries", 3) == 2 {
		recs = append(recs, fox.CustomRecoveryWithLogHandler(capt, recoverFn))
		res.inc("config_two_recovery_layers")
	}
	w, err := world.Build(cfg, fox.WithMiddleware(recs...))
	if err != nil {
		res.Trouble = err.Error()
		return res
	}
	// routes
	withHosts := src.Intn("hosts", 3) == 2
	pool := world.GenPool(src, world.PoolCfg{Size: 2 + src.Intn("poolsize", 4), MaxSegs: 1 + src.Intn("maxsegs", 3), WildHeavy: true, Hosts: withHosts})
	set := model.NewSet()
	tag := 0
	for i := range pool {
		tag++
		op := WOp{Kind: "handle", Method: "GET", Pat: i, Tag: tag, Opt: world.RouteOpt{MW: []int{300 + i}}}
		if applyModel(set, cfg, pool, op).Class == "ok" {
			if out := applyFox(w, w.R, pool, op); out.Class != "ok" {
				res.Trouble = fmt.Sprintf("setup %v: %v", op, out)
				return res
			}
		}
	}
	if set.Len() == 0 {
		return res
	}
	prefixes := []string{"", "/"}
	// the request: matches one registered route
	target := set.Routes()[src.Intn("target", set.Len())]
	host, path := world.Instantiate(src, target.Pat)
	reqHost := "sim.invalid" // the Host of every request of this run: the target's hostname when it has one
	if host != "" {
		reqHost = host
		res.inc("target_route_has_a_hostname")
	}
	wantMatch := set.Match("GET", reqHost, path, model.MatchOpts{})
	if wantMatch.Route == nil || wantMatch.TSR {
		return res
	}
	if fmtMatch(wantMatch) != fmtMatch(set.Match("GET", reqHost, path, model.MatchOpts{AllowLeadingSlashCapture: true})) {
		return res // documented ambiguity (capture starting with '/'): not this property's business
	}
	// headers: secrets under drawn capitalisations + ordinary ones
	type hdr struct{ Key, Val, Cap string }
	var secrets, ordinary []hdr
	for i, n := range secretNames {
		k, c := capitalise(src, n)
		val := fmt.Sprintf("SECRET-%d-%s", i, strings.Repeat("z", 3+i))
		switch src.Intn("secretlen", 4) {
		case 2:
			// credentials need not be long: a value shorter than the text that replaces it ('^' occurs nowhere else in
			// a record: not in patterns, stacks or ordinary headers)
			val = fmt.Sprintf("^%d^", i)
			res.inc("secret_value_of_3_bytes")
		case 3:
			val = fmt.Sprintf("^%d", i)
			res.inc("secret_value_of_2_bytes")
		}
		secrets = append(secrets, hdr{k, val, c})
		res.inc("secret_header_" + c)
		// a credential header may occupy several lines of the request dump: several values under one key, or the same
		// name under a second capitalisation (two keys of the header map)
		switch src.Intn("secretshape", 4) {
		case 2:
			secrets = append(secrets, hdr{k, fmt.Sprintf("SECRET-%d-second-value", i), c + "+second-value"})
			res.inc("secret_header_with_two_values")
		case 3:
			k2 := strings.ToLower(n)
			if k2 == k {
				k2 = http.CanonicalHeaderKey(n)
			}
			secrets = append(secrets, hdr{k2, fmt.Sprintf("SECRET-%d-other-key", i), c + "+second-capitalisation"})
			res.inc("secret_header_under_two_keys")
		}
	}
	ordinary = append(ordinary, hdr{"X-Request-Id", "ordinary-value-1", ""}, hdr{"accept", "ordinary-value-2", ""})
	// ordinary headers whose NAME is the beginning of a credential header's name as the request carries it (Proxy next to
	// Proxy-Authorization, Cook next to Cookie): they sit on the line just before it in the sorted request dump
	for i := 0; i < len(secrets); i++ {
		if src.Intn("prefixneighbour", 3) != 2 {
			continue
		}
		k := secrets[i].Key
		cut := strings.LastIndexByte(k, '-')
		if cut <= 0 || src.Intn("prefixcut", 3) == 2 {
			cut = 1 + src.Intn("prefixcutat", len(k)-1)
		}
		if slices.ContainsFunc(ordinary, func(h hdr) bool { return h.Key == k[:cut] }) {
			continue // (each ordinary header carries one value)
		}
		ordinary = append(ordinary, hdr{k[:cut], fmt.Sprintf("ordinary-neighbour-%d", i), ""})
		res.inc("ordinary_header_named_like_the_beginning_of_a_credential_header")
	}
	// the request-target form: origin-form, absolute-form (proxy style) or a request without any host - the dump of
	// the request starts differently in each case (httputil.DumpRequest omits the Host line for the last two)
	reqForm := sim.Pick(src, "reqform", []string{"origin", "origin", "absolute", "nohost"})
	if withHosts && reqForm == "nohost" {
		reqForm = "origin" // with hostname routes around, the reference is asked with the Host every request carries
	}
	res.inc("request_form_" + reqForm)
	ctxDone := src.Intn("ctxdone", 4) == 3
	if ctxDone {
		res.inc("request_context_already_done")
	}
	// the request line and the header block may be long (servers accept a megabyte of them): one run in six carries a
	// query of 5000 bytes, one in six an ordinary header value of 6000 bytes
	query := "q=1"
	if src.Intn("longrequestline", 6) == 5 {
		query = "q=" + strings.Repeat("x", 5000)
		res.inc("request_line_longer_than_4096_bytes")
	}
	if src.Intn("longheader", 6) == 5 {
		ordinary = append(ordinary, hdr{"X-Long", "ordinary-long-" + strings.Repeat("y", 6000), ""})
		res.inc("ordinary_header_of_6000_bytes")
	}
	mkReq := func(method, p string, log *world.ReqLog) *http.Request {
		req := world.NewRequest(method, reqHost, p, "", query, log)
		if ctxDone {
			// the request's context is already done (a timeout middleware whose deferred cancel ran while the panic
			// unwound, or a caller that gave up): the client still gets its answer
			ctx, cancel := context.WithCancel(req.Context())
			cancel()
			req = req.WithContext(ctx)
		}
		switch reqForm {
		case "absolute":
			req.RequestURI = "http://" + reqHost + p + "?" + query
		case "nohost":
			req.Host = ""
		}
		for _, h := range secrets {
			req.Header[h.Key] = append(req.Header[h.Key], h.Val)
		}
		for _, h := range ordinary {
			req.Header[h.Key] = []string{h.Val}
		}
		return req
	}
	var hdesc []string
	for _, h := range secrets {
		hdesc = append(hdesc, h.Key)
	}
	res.Case["secret_header_names"] = hdesc
	res.Case["request_form"] = reqForm
	res.Case["request_context_done"] = ctxDone
	res.Case["routes"] = set.Fingerprint()
	res.Case["request"] = "GET " + path

	before := world.MapSweep(w.R, []string{"GET"}, pool, prefixes)
	type site struct {
		Name   string
		Method string
		Path   string
		Kind   model.Kind
		Sv     model.Served // what the reference dispatcher says about the site's request
	}
	// the slash-toggled form of the request: with ignore-trailing-slash in force it is served by a route through the
	// trailing-slash machinery, with the parameters of the adjusted match
	toggled := path + "/"
	if strings.HasSuffix(path, "/") && len(path) > 1 {
		toggled = path[:len(path)-1]
	}
	sites := []site{
		{Name: "route-handler", Method: "GET", Path: path, Kind: model.KRoute},
		{Name: "route-middleware", Method: "GET", Path: path, Kind: model.KRoute},
		{Name: "route-handler-via-ignored-slash", Method: "GET", Path: toggled, Kind: model.KRoute},
		{Name: "route-handler-mounting-a-second-router", Method: "GET", Path: path, Kind: model.KRoute},
		{Name: "no-route-handler", Method: "GET", Path: "/zz/none/zz", Kind: model.KNoRoute},
		{Name: "no-method-handler", Method: "PURGE", Path: path, Kind: model.KNoMethod},
		{Name: "options-handler", Method: "OPTIONS", Path: path, Kind: model.KOptions},
	}
	// "copy-source-panics": the handler streams a source into the writer (io.Copy -> ReadFrom); the source delivers one
	// chunk and then panics with the value - the response has started by then
	// "refused-status": the handler asks for a status code the connection refuses by panicking (net/http does for codes
	// outside 100-999): nothing has been sent, the panic is the connection's own
	// "copy-source-panics-fastpath": the same on a connection that offers io.ReaderFrom (as net/http's does): the copy is
	// delegated, and what the connection accepted before the source panicked is known to the connection only
	progress := []string{"nothing", "header", "partial", "failed-write", "copy-source-panics", "copy-source-panics-fastpath", "refused-status"}
	{
		// keep only the sites whose request really reaches the intended handler kind for this route set
		mcfg := w.ModelCfg()
		var ok []site
		for _, st := range sites {
			sv := set.Serve(mcfg, st.Method, reqHost, st.Path, st.Path, model.MatchOpts{})
			amb := set.Serve(mcfg, st.Method, reqHost, st.Path, st.Path, model.MatchOpts{AllowLeadingSlashCapture: true})
			if sv.Kind == st.Kind && amb.Kind == st.Kind && fmtMatch(sv.Match) == fmtMatch(amb.Match) {
				st.Sv = sv
				ok = append(ok, st)
			} else {
				res.inc("site_skipped_" + st.Name)
			}
		}
		sites = ok
	}

	followUp := func(where string) bool {
		// routes unchanged
		if d := world.DiffLines(world.MapSweep(w.R, []string{"GET"}, pool, prefixes), before); d != "" {
			res.fail("C15/routes-changed", "%s: registered routes changed: %s", where, d)
			return false
		}
		// a later request is served normally - its handler also asks the router something (a second pooled context is
		// drawn while the request's own is in use) and then still finds its own request in its context
		log := &world.ReqLog{}
		log.Inner = func(c fox.Context, h *world.Hit) {
			_ = c.Fox().Has("GET", wantMatch.Route.Pattern)
			_, _ = c.Fox().Reverse("GET", reqHost, path)
			if c.Request() == nil || c.Path() != path || c.Pattern() != wantMatch.Route.Pattern {
				res.fail("C15/follow-up", "%s: the follow-up request's context no longer shows its own request after the handler asked the router (pattern %q)", where, c.Pattern())
			}
		}
		conn := world.NewConn()
		func() {
			defer func() {
				if p := recover(); p != nil {
					res.fail("C15/follow-up", "%s: the follow-up request panicked: %v", where, p)
				}
			}()
			w.R.ServeHTTP(conn, mkReq("GET", path, log))
		}()
		if res.failed() {
			return false
		}
		if len(log.Hits) == 0 || log.Hits[len(log.Hits)-1].Tag != wantMatch.Route.Tag {
			res.fail("C15/follow-up", "%s: the follow-up request GET %s was not served by its route (hits %v)", where, path, log.Hits)
			return false
		}
		return true
	}

	// a second router to be mounted below a route of the first: every GET reaches its only handler
	var mountedPanic func(fox.Context)
	mounted, err := fox.New()
	if err == nil {
		for _, pat := range []string{"/", "/*{any}"} {
			if _, e := mounted.Handle("GET", pat, func(c fox.Context) { mountedPanic(c) }); e != nil {
				err = e
			}
		}
	}
	if err != nil {
		res.Trouble = "mounted router: " + err.Error()
		return res
	}
	for _, st := range sites {
		for _, pv := range panicValues() {
			for _, pg := range progress {
				if res.failed() {
					return res
				}
				if pg == "refused-status" && pv.Name != "string" {
					continue // (the panic value is the connection's own there: one combination per site is enough)
				}
				res.Checks++
				res.inc("panic_value_" + pv.Name)
				res.inc("progress_" + pg)
				res.inc("site_" + st.Name)
				capt.Records = nil
				conn := world.NewConn()
				if pg == "failed-write" {
					conn.FailAfter = 2
				}
				eventsAtPanic := -1
				wroteSomething := false
				doPanic := func(c fox.Context) {
					switch pg {
					case "header":
						c.Writer().WriteHeader(202)
						wroteSomething = true
					case "partial":
						c.Writer().WriteHeader(202)
						_, _ = c.Writer().Write([]byte("partial"))
						wroteSomething = true
					case "failed-write":
						_, _ = c.Writer().Write([]byte("partial"))
						wroteSomething = true
					case "refused-status":
						eventsAtPanic = len(conn.Events)
						c.Writer().WriteHeader(0)
					case "copy-source-panics", "copy-source-panics-fastpath":
						wroteSomething = true
						_, _ = io.Copy(c.Writer(), &panickingSource{chunk: "first-chunk;", then: func() {
							eventsAtPanic = len(conn.Events)
							raise(pv.V)
						}})
					}
					eventsAtPanic = len(conn.Events)
					raise(pv.V)
				}
				log := &world.ReqLog{}
				if st.Name == "route-middleware" {
					log.OnMW = func(c fox.Context, id int) {
						if id >= 300 {
							doPanic(c)
						}
					}
				} else if st.Name == "route-handler-mounting-a-second-router" {
					// the route's handler hands writer and request to another fox router (no Recovery of its own) whose
					// handler writes and panics: the outer recorder saw those writes, the outer Recovery judges by them
					log.Inner = func(c fox.Context, h *world.Hit) {
						mountedPanic = doPanic
						mounted.ServeHTTP(c.Writer(), c.Request())
					}
				} else {
					log.Inner = func(c fox.Context, h *world.Hit) { doPanic(c) }
				}
				var escaped any
				escapedSet := false
				func() {
					defer func() {
						if p := recover(); p != nil {
							escaped, escapedSet = p, true
						}
					}()
					var rw http.ResponseWriter = conn
					if pg == "copy-source-panics-fastpath" {
						rw = conn.Wrap(world.NormCaps(world.Caps{ReaderFrom: true}))
					}
					w.R.ServeHTTP(rw, mkReq(st.Method, st.Path, log))
				}()
				where := fmt.Sprintf("panic(%s) in %s with progress %q (GET %s)", pv.Name, st.Name, pg, st.Path)
				if eventsAtPanic < 0 {
					res.Trouble = where + ": the panic site was not reached"
					return res
				}
				if pv.Abort {
					if !escapedSet || escaped != pv.V {
						res.fail("C15/abort-not-reraised", "%s: http.ErrAbortHandler must be re-raised unchanged, ServeHTTP gave %v", where, escaped)
						return res
					}
					if len(conn.Events) != eventsAtPanic {
						res.fail("C15/response-touched", "%s: the response was modified after the panic: %v", where, conn.Events[eventsAtPanic:])
						return res
					}
				} else {
					if escapedSet {
						res.fail("C15/panic-escaped", "%s: the panic escaped ServeHTTP: %v", where, escaped)
						return res
					}
					switch {
					case !wroteSomething && !pv.Broken:
						if conn.Explicit != 500 || len(conn.Body) == 0 {
							res.fail("C15/no-500", "%s: nothing had been written, the client must get a 500 response; the connection saw %v", where, conn.Events)
							return res
						}
					default:
						if pg == "copy-source-panics-fastpath" && len(conn.Events) > eventsAtPanic && conn.Events[eventsAtPanic].Kind == "header" && conn.Events[eventsAtPanic].Code == 500 && conn.WroteBody {
							// known finding: the recorder learns the delegated copy's count only when ReadFrom returns; a
							// source that panics midway leaves it at "nothing written", and Recovery appends its 500 page
							res.known("C15/fastpath-copy-panic-loses-accounting", fmt.Sprintf("%s: the connection saw %v after the panic", where, conn.Events[eventsAtPanic:]))
							break
						}
						if len(conn.Events) != eventsAtPanic {
							res.fail("C15/response-touched", "%s: the response must be left untouched, but the connection saw %v after the panic", where, conn.Events[eventsAtPanic:])
							return res
						}
					}
					// the diagnostic record
					if capt.MinLevel > slog.LevelError {
						if len(capt.Records) != 0 {
							res.fail("C15/log-record", "%s: %d records reached a log handler that does not enable ERROR", where, len(capt.Records))
							return res
						}
						continue
					}
					if len(capt.Records) != 1 {
						res.fail("C15/log-record", "%s: %d diagnostic records were logged, expected 1", where, len(capt.Records))
						return res
					}
					rec := capt.Records[0]
					all := rec.String()
					for _, h := range secrets {
						if strings.Contains(all, h.Val) {
							res.fail("C15/secret-logged", "%s: the diagnostic record contains the value of header %q (%s capitalisation)", where, h.Key, h.Cap)
							return res
						}
					}
					for _, h := range ordinary {
						if !strings.Contains(all, h.Val) {
							res.fail("C15/log-record", "%s: the request dump lacks the ordinary header %q", where, h.Key)
							return res
						}
					}
					reqLine := fmt.Sprintf("%s %s?%s HTTP/1.1", st.Method, st.Path, query)
					if reqForm == "absolute" {
						reqLine = fmt.Sprintf("%s http://%s%s?%s HTTP/1.1", st.Method, reqHost, st.Path, query)
					}
					if !strings.Contains(rec.Msg, reqLine) {
						res.fail("C15/log-record", "%s: the record does not name the request line %q", where, reqLine)
						return res
					}
					wantRoute := map[model.Kind]string{model.KNoRoute: "NoRouteHandler", model.KNoMethod: "NoMethodHandler", model.KOptions: "OptionsHandler"}[st.Kind]
					if st.Kind == model.KRoute {
						wantRoute = st.Sv.Route.Pattern
						declared := map[string]bool{}
						for _, p := range st.Sv.Params {
							declared[p.Key] = true
						}
						for k := range rec.Attrs {
							if name, ok := strings.CutPrefix(k, "params."); ok && name != "#" && !declared[name] {
								res.fail("C15/log-record", "%s: the record names parameter %q, which route %s does not declare (record: %v)", where, name, wantRoute, rec.Attrs)
								return res
							}
						}
						for _, p := range st.Sv.Params {
							if rec.Attrs["params."+p.Key] != p.Value {
								res.fail("C15/log-record", "%s: the record lacks parameter %s=%s (record: %v)", where, p.Key, p.Value, rec.Attrs)
								return res
							}
						}
					}
					if rec.Attrs["route"] != wantRoute {
						res.fail("C15/log-record", "%s: the record names route %q, expected %q", where, rec.Attrs["route"], wantRoute)
						return res
					}
				}
			}
		}
		if !followUp("after the panics in " + st.Name) {
			return res
		}
	}

	// one run in four: the same through fox's built-in log handler (CustomRecovery), which writes to the process'
	// standard error - captured through a private scratch file. The route's wildcards are named like the attributes
	// log handlers treat specially.
	if src.Intn("builtinloghandler", 4) == 3 {
		res.inc("runs_with_builtin_log_handler")
		rb, err := fox.New(fox.WithMiddleware(fox.CustomRecovery(fox.DefaultHandleRecovery)))
		if err != nil {
			res.Trouble = "built-in handler router: " + err.Error()
			return res
		}
		names := []string{"latency", "status", "error", "level", "time", "msg", "route", "params", "location", "method", "host", "path", "stack", "source"}
		for i := len(names) - 1; i > 0; i-- {
			j := src.Intn("attrnames", i+1)
			names[i], names[j] = names[j], names[i]
		}
		pat := fmt.Sprintf("/bl/{%s}/{%s}/{%s}/*{%s}", names[0], names[1], names[2], names[3])
		bpath := "/bl/250ms/503/boom/x/y"
		wantParams := []string{names[0] + "=250ms", names[1] + "=503", names[2] + "=boom", names[3] + "=x/y"}
		var script func(c fox.Context)
		if _, err := rb.Handle("GET", pat, func(c fox.Context) { script(c) }); err != nil {
			res.Trouble = "built-in handler router: " + err.Error()
			return res
		}
		for _, pv := range panicValues() {
			if pv.Abort || pv.Broken {
				continue
			}
			for _, pg := range []string{"nothing", "partial"} {
				res.Checks++
				conn := world.NewConn()
				eventsAtPanic := -1
				script = func(c fox.Context) {
					if pg == "partial" {
						c.Writer().WriteHeader(202)
						_, _ = c.Writer().Write([]byte("partial"))
					}
					eventsAtPanic = len(conn.Events)
					raise(pv.V)
				}
				var escaped any
				out, cerr := world.CaptureStderr(func() {
					defer func() { escaped = recover() }()
					rb.ServeHTTP(conn, mkReq("GET", bpath, nil))
				})
				if cerr != nil {
					res.Trouble = "capturing standard error: " + cerr.Error()
					return res
				}
				where := fmt.Sprintf("built-in log handler, route %s: panic(%s) with progress %q", pat, pv.Name, pg)
				text := world.StripANSI(out)
				switch {
				case escaped != nil:
					res.fail("C15/panic-escaped", "%s: the panic escaped ServeHTTP: %v", where, escaped)
				case eventsAtPanic < 0:
					res.Trouble = where + ": the panic site was not reached"
				case pg == "nothing" && (conn.Explicit != 500 || len(conn.Body) == 0):
					res.fail("C15/no-500", "%s: nothing had been written, the client must get a 500 response; the connection saw %v", where, conn.Events)
				case pg == "partial" && len(conn.Events) != eventsAtPanic:
					res.fail("C15/response-touched", "%s: the response must be left untouched, but the connection saw %v after the panic", where, conn.Events[eventsAtPanic:])
				case strings.Count(text, "Recovered from PANIC") != 1:
					res.fail("C15/log-record", "%s: %d diagnostic records on standard error, expected 1: %q", where, strings.Count(text, "Recovered from PANIC"), text)
				case !strings.Contains(text, "route="+pat):
					res.fail("C15/log-record", "%s: the record does not name the route: %q", where, text)
				case !strings.Contains(text, fmt.Sprintf("GET %s?%s HTTP/1.1", bpath, query)) && reqForm != "absolute", reqForm == "absolute" && !strings.Contains(text, fmt.Sprintf("GET http://%s%s?%s HTTP/1.1", reqHost, bpath, query)):
					res.fail("C15/log-record", "%s: the record does not name the request line: %q", where, text)
				default:
					for _, wp := range wantParams {
						if !strings.Contains(text, wp) {
							res.fail("C15/log-record", "%s: the record lacks parameter %s: %q", where, wp, text)
							break
						}
					}
					for _, h := range secrets {
						if strings.Contains(text, h.Val) {
							res.fail("C15/secret-logged", "%s: the record on standard error contains the value of header %q", where, h.Key)
							break
						}
					}
				}
				if res.failed() || res.Trouble != "" {
					return res
				}
			}
		}
	}

	// the writer lock is released: a write issued under the scheduler completes (otherwise: deadlock)
	lockReleased := func(where string) bool {
		s := sim.NewSched(src)
		var werr error
		s.Go("writer", func(*sim.Task) {
			if _, werr = w.R.Handle("GET", "/zz/probe", world.Handler(0)); werr == nil {
				_, werr = w.R.Delete("GET", "/zz/probe")
			}
		})
		out := s.Run()
		res.Steps += s.Steps
		if out.Kind == sim.Deadlock {
			res.fail("C15/lock-not-released", "%s: a later write waits forever for the writer lock", where)
			return false
		}
		if out.Kind != sim.Done {
			res.Leaked = s.Leaked()
			res.fail("C15/lock-not-released", "%s: a later write ended with %s %s", where, out.Kind, out.State)
			return false
		}
		if werr != nil {
			res.fail("C15/follow-up", "%s: a later write failed: %v", where, werr)
			return false
		}
		return true
	}

	// panics after every prefix of an Updates / View program executed inside a handler
	nextTag := 1000
	prog := genTxnProg(src, pool, []string{"GET", "POST"}, &nextTag, 4, 0)
	res.Case["txn_program"] = prog.String()
	for _, managedKind := range []string{"updates", "view"} {
		for k := 0; k <= len(prog.Ops); k++ {
			if res.failed() {
				return res
			}
			res.Checks++
			res.inc("txn_panic_positions")
			capt.Records = nil
			log := &world.ReqLog{Inner: func(c fox.Context, h *world.Hit) {
				body := func(txn *fox.Txn) error {
					for i := range prog.Ops {
						if i == k {
							panic(fmt.Sprintf("injected at %d", k))
						}
						if managedKind == "updates" {
							applyFox(w, txn, pool, prog.Ops[i])
						} else {
							txn.Has(prog.Ops[i].Method, pool[prog.Ops[i].Pat].Raw)
						}
					}
					panic("injected at end")
				}
				if managedKind == "updates" {
					_ = c.Fox().Updates(body)
				} else {
					_ = c.Fox().View(body)
				}
			}}
			conn := world.NewConn()
			var escaped any
			func() {
				defer func() { escaped = recover() }()
				w.R.ServeHTTP(conn, mkReq("GET", path, log))
			}()
			where := fmt.Sprintf("panic after %d operations of %s(%v) inside a handler", k, managedKind, prog.Ops)
			if escaped != nil {
				res.fail("C15/panic-escaped", "%s: escaped ServeHTTP: %v", where, escaped)
				return res
			}
			if conn.Explicit != 500 {
				res.fail("C15/no-500", "%s: the client did not get a 500 (connection saw %v)", where, conn.Events)
				return res
			}
			if !followUp(where) {
				return res
			}
			if !lockReleased(where) {
				return res
			}
		}
	}

	// a panic raised while a single-operation write helper builds the route (a middleware constructor of the new
	// route panics, i.e. user code running under the writer lock), called from a handler
	for _, helper := range []string{"handle", "update", "handle-global-mw-order"} {
		if res.failed() {
			return res
		}
		res.Checks++
		res.inc("write_helper_panic_sites")
		capt.Records = nil
		badMW := fox.WithMiddleware(func(next fox.HandlerFunc) fox.HandlerFunc { panic("injected in a middleware constructor") })
		log := &world.ReqLog{Inner: func(c fox.Context, h *world.Hit) {
			switch helper {
			case "handle":
				_, _ = c.Fox().Handle("GET", "/zz/new/{a}", world.Handler(0), badMW)
			case "update":
				_, _ = c.Fox().Update("GET", wantMatch.Route.Pattern, world.Handler(0), badMW)
			default:
				_, _ = c.Fox().Handle("POST", wantMatch.Route.Pattern, world.Handler(0), fox.WithMiddleware(world.RouteMW(7)), badMW)
			}
		}}
		conn := world.NewConn()
		var escaped any
		func() {
			defer func() { escaped = recover() }()
			w.R.ServeHTTP(conn, mkReq("GET", path, log))
		}()
		where := fmt.Sprintf("panic in a middleware constructor during Router.%s inside a handler", helper)
		if escaped != nil {
			res.fail("C15/panic-escaped", "%s: escaped ServeHTTP: %v", where, escaped)
			return res
		}
		if conn.Explicit != 500 {
			res.fail("C15/no-500", "%s: the client did not get a 500 (connection saw %v)", where, conn.Events)
			return res
		}
		if !followUp(where) || !lockReleased(where) {
			return res
		}
	}
	res.Nontrivial = true
	res.CaseKey = hashStrings(cfg.String(), set.Fingerprint(), fmt.Sprint(hdesc), prog.String(), path, reqForm, fmt.Sprint(ctxDone))
	res.Hash = hashStrings(fmt.Sprint(res.Checks), set.Fingerprint(), fmt.Sprint(hdesc), prog.String())
	return res
}
