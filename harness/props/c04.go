package props

import (
	"errors"
	"fmt"

	"github.com/tigerwill90/fox"

	"verif/harness/model"
	"verif/harness/sim"
	"verif/harness/world"
)

func init() {
	register(&Prop{
		ID: "C04", Level: "fault_enumeration",
		Rule: "two scenario families, chosen per run. (a) enumerated endings: a generated transaction program of 1-6 operations (Handle/Update/Delete/Truncate, reads, Iter at a drawn position, a Snapshot() at a drawn position that must show the writes so far, refuse writes and is then dropped, aborted or committed while the transaction stays open) is executed once for every ending in {commit, explicit abort, error returned from Updates, panic inside Updates, runtime.Goexit of the calling goroutine inside the transaction} placed after every prefix of its operations (all positions enumerated for each program); after each operation the transaction's own view is compared with the private model (on three drawn requests Lookup and Reverse of each reader must agree and Lookup's parameters, substituted into the selected pattern, must spell the request) and a second task sweeps the router (must show the committed state only); after the ending the router must show all or none of the writes, the settled transaction must refuse every method, a read-only transaction must refuse writes without effect, and a write issued by the second task must complete (writer lock released, else the scheduler reports a deadlock). (b) concurrent readers: multi-route transactions next to readers that observe several keys from one snapshot (Iter.All, View, Allow header), history checked with porcupine; the same family also runs under the race detector (HB mode). Non-trivial: the transaction made at least 2 effective writes and was observed from outside at least once while open; distinct = hash of (program, ending, position) or (programs, schedule).",
		Run:  runC04, HBRun: runC04HB, Quick: 32000, Thorough: 4800000, QuickHB: 4000, ThoroughHB: 400000,
		Real: commonReal, Stub: commonStub,
		Domain: []string{"transaction programs of <= 6 operations; pools as in C02", "concurrent family: as C05 with 80% of writer operations being transactions"},
	})
}

func runC04(src sim.Source, o Opts) *Result {
	res := newResult()
	res.Case["prop"] = "C04"
	if src.Intn("family", 2) == 0 {
		runC04Enum(src, o, res)
		res.inc("family_enumerated_endings")
	} else {
		runConc(src, o, res, concPlan{writersMin: 1, writersMax: 2, readersMin: 1, readersMax: 3, opsMin: 1, opsMax: 5, txnRate: 8})
		res.inc("family_concurrent_readers")
	}
	return res
}

// runC04HB: the concurrent family under the race detector (a reader that observes memory a transaction is still writing
// shows up as a data race even when the values happen to agree).
func runC04HB(src sim.Source, o Opts) *Result {
	res := newResult()
	res.Case["prop"] = "C04"
	runConc(src, o, res, concPlan{writersMin: 1, writersMax: 2, readersMin: 1, readersMax: 3, opsMin: 1, opsMax: 5, txnRate: 8})
	res.inc("family_concurrent_readers")
	return res
}

type txnVariant struct {
	End   string
	EndAt int
}

func runC04Enum(src sim.Source, o Opts, res *Result) {
	cfg := world.DrawCfg(src)
	pc := world.PoolCfg{Size: 3 + src.Intn("poolsize", 6), MaxSegs: 1 + src.Intn("maxsegs", 4), Hosts: src.Intn("hosts", 3) == 2,
		WildHeavy: sim.Bool(src, "wildheavy"), TSlash: src.Intn("tslash", 4), Odd: src.Intn("oddbytes", 5) == 4}
	pool := world.GenPool(src, pc)
	if len(pool) == 0 {
		return
	}
	w, err := world.Build(cfg)
	if err != nil {
		res.Trouble = err.Error()
		return
	}
	prefixes := prefixesOf(src, pool)
	probes := genProbes(src, pool, methods3, 3)
	committed := model.NewSet()
	nextTag := 0
	// some initial content
	for i, n := 0, src.Intn("prefill", 2*len(pool)+1); i < n; i++ {
		nextTag++
		op := genWOp(src, pool, methods3, nextTag, false, 0)
		op.Kind = "handle"
		if applyModel(committed, cfg, pool, op).Class == "ok" {
			if out := applyFox(w, w.R, pool, op); out.Class != "ok" {
				res.fail("C04/setup", "prefill %v returned %v", op, out)
				return
			}
		}
	}
	// one time in three the history before the program contains a committed Truncate of one custom verb that had routes
	// (its root leaves the published root list): whatever that leaves behind belongs to the published state, and the
	// transactions that follow start from it
	if src.Intn("truncatedbefore", 3) == 2 {
		verb := sim.Pick(src, "truncatedverb", []string{"PUSH", "UNPUSH"})
		nextTag++
		op := genWOp(src, pool, []string{verb}, nextTag, false, 0)
		op.Kind = "handle"
		if applyModel(committed, cfg, pool, op).Class == "ok" {
			if out := applyFox(w, w.R, pool, op); out.Class != "ok" {
				res.fail("C04/setup", "prefill %v returned %v", op, out)
				return
			}
		}
		if err := w.R.Updates(func(txn *fox.Txn) error { return txn.Truncate(verb) }); err != nil {
			res.fail("C04/setup", "Truncate(%s) before the program: %v", verb, err)
			return
		}
		committed.Truncate(verb)
		res.inc("history_with_a_committed_truncate_of_a_custom_verb")
	}
	prog := genTxnProgHint(src, pool, methods3, &nextTag, 6, 8, committed, cfg)
	managed := prog.Managed
	// enumerate every ending at every position; commit last (it changes the committed state)
	var variants []txnVariant
	n := len(prog.Ops)
	// (selfabort: the function of a managed transaction aborts it itself and then returns an error)
	for _, end := range []string{"abort", "error", "panic", "goexit", "selfabort"} {
		if (end == "error" || end == "selfabort") && !managed {
			continue
		}
		for k := 0; k <= n; k++ {
			variants = append(variants, txnVariant{end, k})
		}
	}
	variants = append(variants, txnVariant{"commit", n})
	stay := sim.Pick(src, "stay", [][2]int{{1, 2}, {0, 1}, {3, 4}})
	iterAt := src.Intn("iterat", len(prog.Ops)+2) - 2 // -2: never
	snapAt := src.Intn("snapat", len(prog.Ops)+2) - 2 // -2: never; -1: right after the transaction was opened
	snapEnd := src.Intn("snapend", 3)                 // the snapshot is dropped / aborted / committed while the transaction stays open
	effWrites, outside := 0, 0
	res.Case["config"] = cfg.String()
	res.Case["pool"] = poolStrings(pool)
	res.Case["program"] = prog.String()
	res.Case["initial_set"] = committed.Fingerprint()

	for _, v := range variants {
		if res.failed() {
			break
		}
		t := *prog
		t.End, t.EndAt = v.End, v.EndAt
		res.inc("ending_" + v.End)
		res.Checks++
		private := committed.Clone()
		before := committed
		var phase sim.Counter // 0 open, 1 committing, 2 ended
		var txnRef *fox.Txn
		s := sim.NewSched(src)
		s.StayNum, s.StayDen = stay[0], stay[1]
		s.KeepTrace = o.Trace
		var t0fail, t1fail string
		sweepRouter := func(where string) string {
			var d string
			s.Atomic(func() {
				got := world.MapSweep(w.R, methods3, pool, prefixes)
				ph := phase.Get()
				wantOld := world.ModelMapSweep(before, methods3, pool, prefixes)
				dOld := world.DiffLines(got, wantOld)
				if ph == 0 || t.End != "commit" {
					if dOld != "" {
						d = fmt.Sprintf("%s: router shows uncommitted or partial state: %s", where, dOld)
					}
					return
				}
				dNew := world.DiffLines(got, world.ModelMapSweep(private, methods3, pool, prefixes))
				if ph == 2 && dNew != "" {
					d = fmt.Sprintf("%s: router does not show the committed transaction: %s", where, dNew)
				} else if ph == 1 && dNew != "" && dOld != "" {
					d = fmt.Sprintf("%s: router shows neither the old nor the new state during Commit: %s", where, dNew)
				}
			})
			return d
		}
		s.Go("txn", func(*sim.Task) {
			defer phase.Set(2) // also when the task leaves through runtime.Goexit inside the transaction
			committedOK := runTxn(w, pool, &t, func(i int, txn *fox.Txn, op *WOp, out WOut) {
				if t0fail != "" {
					return
				}
				txnRef = txn
				if op != nil {
					want := applyModel(private, cfg, pool, *op)
					if !sameOut(out, want) {
						t0fail = fmt.Sprintf("inside the transaction %v returned %v, the model says %v", *op, out, want)
						return
					}
					if want.Class == "ok" {
						effWrites++
					}
				}
				var d string
				withIter := iterAt == i // Txn.Iter() resets the copy-on-write cache: only at one drawn position per program
				s.Atomic(func() {
					d = world.DiffLines(world.MapSweepOpt(txn, methods3, pool, prefixes, withIter), world.ModelMapSweepOpt(private, methods3, pool, prefixes, withIter))
				})
				if d != "" {
					t0fail = fmt.Sprintf("after op %d the transaction does not read its own writes: %s", i, d)
					return
				}
				s.Atomic(func() {
					if d = entryPointsAgree(txn, probes); d == "" {
						d = lookupAgreesWithSet(txn, probes, private)
					}
				})
				if d != "" {
					t0fail = fmt.Sprintf("after op %d the transaction's read entry points disagree (one of them does not read its own writes): %s", i, d)
					return
				}
				if i == snapAt {
					// a Snapshot() is a read-only transaction of its own: it shows the writes so far, refuses writes without
					// effect, and settling it changes nothing for the transaction it was taken from
					sn := txn.Snapshot()
					s.Atomic(func() {
						d = world.DiffLines(world.MapSweep(sn, methods3, pool, prefixes), world.ModelMapSweep(private, methods3, pool, prefixes))
					})
					if d == "" {
						s.Atomic(func() {
							if d = entryPointsAgree(sn, probes); d == "" {
								d = lookupAgreesWithSet(sn, probes, private)
							}
						})
					}
					if d != "" {
						t0fail = fmt.Sprintf("after op %d a Snapshot() of the transaction does not show its writes so far: %s", i, d)
						return
					}
					if d := refusesEveryWrite(w, sn, pool); d != "" {
						t0fail = "through a Snapshot(): " + d
					}
					if t0fail != "" {
						return
					}
					switch snapEnd {
					case 1:
						sn.Abort()
					case 2:
						sn.Commit()
					}
					s.Atomic(func() {
						d = world.DiffLines(world.MapSweepOpt(txn, methods3, pool, prefixes, false), world.ModelMapSweepOpt(private, methods3, pool, prefixes, false))
					})
					if d != "" {
						t0fail = fmt.Sprintf("after op %d, settling a Snapshot() changed what the transaction reads: %s", i, d)
						return
					}
				}
				if i == len(t.Ops)-1 && t.End == "commit" {
					phase.Set(1)
				}
				s.Yield(sim.PtTxnFn)
			})
			if len(t.Ops) == 0 && t.End == "commit" {
				phase.Set(1)
			}
			if committedOK != (t.End == "commit") {
				t0fail = fmt.Sprintf("transaction ended by %s@%d: committed=%v", t.End, t.EndAt, committedOK)
			}
			phase.Set(2)
			// the settled write transaction refuses further use
			if txnRef != nil && t0fail == "" {
				t0fail = checkSettled(txnRef, pool)
			}
		})
		s.Go("observer", func(*sim.Task) {
			for i := 0; i < len(t.Ops)+3 && t1fail == ""; i++ {
				if phase.Get() == 0 {
					outside++
				}
				t1fail = sweepRouter(fmt.Sprintf("observer sweep %d", i))
				s.Yield(sim.PtUser)
			}
			s.WaitUntil("transaction end", phase.AtLeast(2))
			if t1fail != "" {
				return
			}
			t1fail = sweepRouter("observer after the ending")
			if t1fail != "" {
				return
			}
			// a read-only transaction refuses writes without effect
			ro := w.R.Txn(false)
			if d := refusesEveryWrite(w, ro, pool); d != "" {
				t1fail = "on a read-only transaction: " + d
			} else if _, err := ro.Handle("GET", "/zz/{", nil); !errors.Is(err, fox.ErrReadOnlyTxn) {
				t1fail = fmt.Sprintf("Handle with invalid arguments on a read-only transaction returned %v, want ErrReadOnlyTxn", err)
			} else if _, err := ro.Update("GET", "zz", nil); !errors.Is(err, fox.ErrReadOnlyTxn) {
				t1fail = fmt.Sprintf("Update with invalid arguments on a read-only transaction returned %v, want ErrReadOnlyTxn", err)
			}
			// Commit and Abort have nothing to settle on a read-only transaction: it stays the read-only view it was
			for _, end := range []string{"Commit", "Abort"} {
				if t1fail != "" {
					break
				}
				if end == "Commit" {
					ro.Commit()
				} else {
					ro.Abort()
				}
				func() {
					defer func() {
						if p := recover(); p != nil {
							t1fail = fmt.Sprintf("a read-only transaction used after its (no-op) %s panicked: %v", end, p)
						}
					}()
					if d := refusesEveryWrite(w, ro, pool); d != "" {
						t1fail = fmt.Sprintf("on a read-only transaction after its (no-op) %s: %s", end, d)
					}
				}()
			}
			if t1fail != "" {
				return
			}
			// degenerate uses of the managed forms are endings too: a nil function (a panic on the call, or nothing at all),
			// and a function that does nothing
			func() {
				defer func() { _ = recover() }()
				_ = w.R.Updates(nil)
			}()
			func() {
				defer func() { _ = recover() }()
				_ = w.R.View(nil)
			}()
			_ = w.R.Updates(func(*fox.Txn) error { return nil })
			// the router accepts new write transactions: this blocks (deadlock) if the lock was not released
			if _, err := w.R.Handle("GET", "/zz/probe", world.Handler(0)); err != nil {
				t1fail = fmt.Sprintf("probe write after the ending failed: %v", err)
				return
			}
			if _, err := w.R.Delete("GET", "/zz/probe"); err != nil {
				t1fail = fmt.Sprintf("probe delete after the ending failed: %v", err)
				return
			}
			t1fail = sweepRouter("observer after the probe write")
		})
		out := s.Run()
		res.Leaked = res.Leaked || s.Leaked()
		res.Steps += s.Steps
		res.Hash = sim.Mix(res.Hash, s.Hash())
		where := fmt.Sprintf("ending %s after %d of %d operations", v.End, v.EndAt, n)
		switch out.Kind {
		case sim.Done:
		case sim.Deadlock:
			res.fail("C04/lock-not-released", "%s: %s", where, out.Detail)
		case sim.Stalled:
			res.Stack = out.Stack
			res.fail("C04/blocked", "%s: task %s blocked in %s", where, out.Task.Name, out.State)
		default:
			res.Trouble = fmt.Sprintf("scheduler: %s %s", out.Kind, out.Detail)
		}
		for _, tk := range s.Tasks {
			if tk.Panic != nil && !res.failed() {
				res.Stack = tk.PanicStack
				res.fail("C04/panic", "%s: task %s panicked: %v", where, tk.Name, tk.Panic)
			}
		}
		if !res.failed() && t0fail != "" {
			res.fail("C04/txn-view", "%s: %s", where, t0fail)
		}
		if !res.failed() && t1fail != "" {
			res.fail("C04/atomicity", "%s: %s", where, t1fail)
		}
		if res.failed() {
			res.Case["variant"] = where
		}
		if v.End == "commit" {
			committed = private
		}
	}
	res.Nontrivial = effWrites >= 2*len(variants) && outside > 0
	res.CaseKey = hashStrings(cfg.String(), prog.String(), committed.Fingerprint())
	res.add("variants", len(variants))
}

// checkSettled verifies that every method of a finished write transaction panics with ErrSettledTxn, except
// Commit/Abort (no-ops) and Snapshot (nil).
func checkSettled(txn *fox.Txn, pool []*model.Pattern) string {
	try := func(name string, f func()) (msg string) {
		defer func() {
			p := recover()
			if p == nil {
				msg = name + " on a settled transaction did not panic"
				return
			}
			if e, ok := p.(error); !ok || !errors.Is(e, fox.ErrSettledTxn) {
				msg = fmt.Sprintf("%s on a settled transaction panicked with %v", name, p)
			}
		}()
		f()
		return ""
	}
	pat := pool[0].Raw
	calls := []struct {
		name string
		f    func()
	}{
		{"Handle", func() { txn.Handle("GET", pat, world.Handler(0)) }},
		{"Update", func() { txn.Update("GET", pat, world.Handler(0)) }},
		{"Delete", func() { txn.Delete("GET", pat) }},
		{"Truncate", func() { txn.Truncate() }},
		{"Has", func() { txn.Has("GET", pat) }},
		{"Route", func() { txn.Route("GET", pat) }},
		{"Reverse", func() { txn.Reverse("GET", "", "/a") }},
		{"Lookup", func() { txn.Lookup(world.NewRW(world.NewConn()), world.NewRequest("GET", "", "/a", "", "", nil)) }},
		{"Iter", func() { txn.Iter() }},
		{"Len", func() { txn.Len() }},
		{"Handle with a nil handler", func() { txn.Handle("GET", pat, nil) }},
		{"Handle with a malformed pattern", func() { txn.Handle("GET", "/zz/{", world.Handler(0)) }},
		{"Update with a malformed pattern", func() { txn.Update("GET", "zz", world.Handler(0)) }},
		{"HandleRoute", func() { txn.HandleRoute("GET", nil) }},
		{"UpdateRoute", func() { txn.UpdateRoute("GET", nil) }},
	}
	for _, c := range calls {
		if m := try(c.name, c.f); m != "" {
			return m
		}
	}
	txn.Commit()
	txn.Abort()
	if txn.Snapshot() != nil {
		return "Snapshot of a settled transaction is not nil"
	}
	return ""
}

// refusesEveryWrite calls every write method of a read-only transaction (a View/Txn(false) or a Snapshot) with valid
// arguments - prebuilt routes included, on a registered and on an unregistered pattern - and wants ErrReadOnlyTxn each
// time, without any effect on what the transaction shows.
func refusesEveryWrite(w *world.World, ro *fox.Txn, pool []*model.Pattern) string {
	regMethod, regPattern, regTag := "", "", 0
	for m, rt := range ro.Iter().All() {
		regMethod, regPattern, regTag = m, rt.Pattern(), world.TagOf(rt)
		break
	}
	lenBefore := ro.Len()
	type try struct {
		what string
		err  error
	}
	var tries []try
	_, err := ro.Handle("GET", "/zz/readonly", world.Handler(0))
	tries = append(tries, try{"Handle", err})
	if rt, e := w.R.NewRoute("/zz/readonly", world.Handler(0)); e == nil {
		tries = append(tries, try{"HandleRoute", ro.HandleRoute("GET", rt)})
	}
	_, err = ro.Delete("GET", pool[0].Raw)
	tries = append(tries, try{"Delete", err})
	if regPattern != "" {
		_, err = ro.Update(regMethod, regPattern, world.Handler(0))
		tries = append(tries, try{"Update of a registered route", err})
		if rt, e := w.R.NewRoute(regPattern, world.Handler(0)); e == nil {
			tries = append(tries, try{"UpdateRoute of a registered route", ro.UpdateRoute(regMethod, rt)})
		}
		_, err = ro.Delete(regMethod, regPattern)
		tries = append(tries, try{"Delete of a registered route", err})
		tries = append(tries, try{"Truncate(" + regMethod + ")", ro.Truncate(regMethod)})
	}
	tries = append(tries, try{"Truncate()", ro.Truncate()})
	// ... and for methods that have no route in this view (there would be nothing to remove: still a write)
	tries = append(tries, try{"Truncate(TRACE, UNLINK)", ro.Truncate("TRACE", "UNLINK")})
	tries = append(tries, try{"Truncate(UNLINK)", ro.Truncate("UNLINK")})
	for _, t := range tries {
		if !errors.Is(t.err, fox.ErrReadOnlyTxn) {
			return fmt.Sprintf("%s returned %v, want ErrReadOnlyTxn", t.what, t.err)
		}
	}
	if ro.Len() != lenBefore || ro.Has("GET", "/zz/readonly") {
		return fmt.Sprintf("refused writes had an effect: Len %d -> %d, Has(/zz/readonly)=%v", lenBefore, ro.Len(), ro.Has("GET", "/zz/readonly"))
	}
	if regPattern != "" {
		if rt := ro.Route(regMethod, regPattern); rt == nil || world.TagOf(rt) != regTag {
			return fmt.Sprintf("refused writes had an effect: %s %s is now %v (was route #%d)", regMethod, regPattern, rt, regTag)
		}
	}
	return ""
}
