package props

import (
	"fmt"
	"strings"

	"github.com/tigerwill90/fox"

	"verif/harness/model"
	"verif/harness/sim"
	"verif/harness/world"
)

func init() {
	register(&Prop{
		ID: "C03", Level: "exploration",
		Rule: "two families. (a) sequential histories as in C02 (direct writes and transactions with all endings, copy-on-write cache capacity drawn from {default,1,2,3,8,64}) in which snapshots are taken at drawn points - Router.Iter(), Router.Txn(false), Txn.Snapshot() and Txn.Iter() between two writes of an open write transaction, a context held open after Lookup - and every live snapshot is re-observed in full (Len, Has, Route, all iterators, Reverse and Lookup with parameters on probe requests) after every later operation, commit or abort and compared with its own first observation (self-consistency, no model involved); the first observation must also equal the model at that moment and the router must keep following the model (writes unaffected by snapshots). (b) concurrent: holder tasks take a snapshot (Iter, read-only Txn, View, Lookup context, a parked request handler) and re-observe it between the steps of 1-2 writer tasks under the seeded scheduler; in HB mode the same schedules run under the race detector, where any store into memory reachable from a published root races with the parked reader. Non-trivial: a snapshot was re-observed after at least one later effective write (a: inside the same transaction or after a commit); distinct = hash of (history, snapshot points) or (programs, schedule).",
		Run:  runC03, HBRun: runC03HB,
		Quick: 20000, Thorough: 4000000, QuickHB: 6000, ThoroughHB: 800000,
		Real: commonReal, Stub: commonStub,
		Domain: []string{"pools as in C02; at most 4 live snapshots at a time; transactions touching more nodes than the copy cache holds are reached by shrinking the cache (verif knob), not by 4096-node transactions"},
	})
}

func runC03(src sim.Source, o Opts) *Result {
	res := newResult()
	res.Case["prop"] = "C03"
	if src.Intn("family", 3) != 2 {
		runC03Seq(src, o, res)
		res.inc("family_sequential")
	} else {
		runC03Conc(src, o, res)
		res.inc("family_concurrent")
	}
	return res
}

func runC03HB(src sim.Source, o Opts) *Result {
	res := newResult()
	res.Case["prop"] = "C03"
	runC03Conc(src, o, res)
	res.inc("family_concurrent")
	return res
}

// snapshot is a handle on a frozen routing state plus its first observation.
type snapshot struct {
	kind       string
	rd         world.Reader // rotxn, snapshot
	it         *fox.Iter    // iter, txniter
	cc         fox.ContextCloser
	route      *fox.Route
	first      []string
	taken      string
	seenWrites int
	reobserved int
}

func (sn *snapshot) observe(pool []*model.Pattern, prefixes []string, probes []world.Probe) []string {
	var out []string
	switch {
	case sn.rd != nil:
		out = world.MapSweep(sn.rd, methods3, pool, prefixes)
		for _, p := range probes {
			out = append(out, fmt.Sprintf("lookup %v: %v", p, world.ObsLookup(sn.rd, p)))
			out = append(out, fmt.Sprintf("reverse %v: %v", p, world.ObsReverse(sn.rd, p)))
		}
	case sn.it != nil:
		out = world.IterSweep(*sn.it, methods3, pool, prefixes)
		for _, p := range probes {
			var rs []string
			for m, r := range sn.it.Reverse(sn.it.Methods(), p.Host, p.Path) {
				rs = append(rs, fmt.Sprintf("%s %s#%d", m, r.Pattern(), world.TagOf(r)))
			}
			out = append(out, fmt.Sprintf("iter.reverse %s%s: %s", p.Host, p.Path, strings.Join(rs, " | ")))
		}
	case sn.cc != nil:
		out = append(out, fmt.Sprintf("ctx route=%s#%d pattern=%s params=[%s] scope=%d", sn.route.Pattern(), world.TagOf(sn.route), sn.cc.Pattern(), world.FmtParams(world.CollectParams(sn.cc)), sn.cc.Scope()))
	}
	return out
}

func takeSnapshot(kind string, rd world.Reader, wtxn *fox.Txn, probe world.Probe) *snapshot {
	switch kind {
	case "iter":
		it := rd.Iter()
		return &snapshot{kind: kind, it: &it}
	case "rotxn":
		if r, ok := rd.(*fox.Router); ok {
			return &snapshot{kind: kind, rd: r.Txn(false)}
		}
	case "snapshot":
		if wtxn != nil {
			return &snapshot{kind: kind, rd: wtxn.Snapshot()}
		}
	case "lookupctx":
		req := world.NewRequest(probe.Method, probe.Host, probe.Path, "", "", nil)
		rt, cc, _ := rd.Lookup(world.NewRW(world.NewConn()), req)
		if rt != nil {
			return &snapshot{kind: kind, cc: cc, route: rt}
		}
	}
	return nil
}

func runC03Seq(src sim.Source, o Opts, res *Result) {
	cfg := world.DrawCfg(src)
	pc := world.PoolCfg{Size: 3 + src.Intn("poolsize", 9), MaxSegs: 1 + src.Intn("maxsegs", 5), Hosts: src.Intn("hosts", 3) == 2,
		WildHeavy: sim.Bool(src, "wildheavy"), TSlash: src.Intn("tslash", 4), Fanout: src.Intn("fanout", 16) == 15, Deep: src.Intn("deep", 16) == 15, Odd: src.Intn("oddbytes", 5) == 4, Ladder: src.Intn("ladder", 10) == 9, Siblings: src.Intn("siblings", 6) == 5}
	if pc.Siblings {
		pc.Size = 1 + src.Intn("smallpool", 3) // the sibling family does most of the work in such a run
	}
	pool := world.GenPool(src, pc)
	if len(pool) == 0 {
		return
	}
	w, err := world.Build(cfg)
	if err != nil {
		res.Trouble = err.Error()
		return
	}
	prefixes := prefixesOf(src, pool)
	var probes []world.Probe
	for i := 0; i < 4; i++ {
		probes = append(probes, world.GenProbe(src, pool, methods3))
	}
	committed := model.NewSet()
	nextTag := 0
	var history []string
	var live []*snapshot
	nontrivial := false
	if pc.Fanout || pc.Deep || pc.Ladder {
		if msg, ok := prefillFanout(src, w, committed, cfg, pool, &nextTag); ok {
			history = append(history, msg)
			if pc.Fanout {
				res.inc("runs_with_fanout_above_50")
			}
			if pc.Deep {
				res.inc("runs_on_tree_deeper_than_25")
			}
		}
	}

	recheck := func(where string, wrote bool) {
		for _, sn := range live {
			if wrote {
				sn.seenWrites++
			}
			res.Checks++
			got := sn.observe(pool, prefixes, probes)
			sn.reobserved++
			if sn.seenWrites > 0 {
				nontrivial = true
			}
			if d := world.DiffLines(got, sn.first); d != "" {
				res.fail("C03/snapshot-changed", "%s snapshot taken %s changed after %s: %s (history %v)", sn.kind, sn.taken, where, d, history)
				return
			}
			// what is derived from a frozen view later on is that view: a Snapshot() of a read-only transaction (or of a
			// snapshot) taken after further commits
			if t, ok := sn.rd.(*fox.Txn); ok && sn.seenWrites > 0 && src.Intn("derive", 3) == 2 {
				res.Checks++
				if s2 := t.Snapshot(); s2 == nil {
					res.fail("C03/snapshot-wrong", "Snapshot() of the %s snapshot taken %s returned nil", sn.kind, sn.taken)
					return
				} else if d := world.DiffLines((&snapshot{rd: s2}).observe(pool, prefixes, probes), sn.first); d != "" {
					res.fail("C03/snapshot-wrong", "a Snapshot() taken after %s from the %s snapshot taken %s differs from it: %s (history %v)", where, sn.kind, sn.taken, d, history)
					return
				}
				res.inc("views_derived_from_a_kept_snapshot")
			}
		}
	}
	snap := func(where string, rd world.Reader, wtxn *fox.Txn, set *model.Set) {
		kinds := []string{"iter", "rotxn", "lookupctx"}
		if wtxn != nil {
			kinds = []string{"iter", "snapshot", "snapshot", "lookupctx"}
		}
		kind := sim.Pick(src, "snapkind", kinds)
		sn := takeSnapshot(kind, rd, wtxn, probes[src.Intn("snapprobe", len(probes))])
		if sn == nil {
			return
		}
		if wtxn != nil && kind == "iter" {
			sn.kind = "txniter"
		}
		sn.taken = where
		sn.first = sn.observe(pool, prefixes, probes)
		res.inc("snapshot_" + sn.kind)
		// the first observation equals the model at that moment (map-level part)
		if sn.rd != nil {
			want := world.ModelMapSweep(set, methods3, pool, prefixes)
			if d := world.DiffLines(sn.first[:len(want)], want); d != "" {
				res.fail("C03/snapshot-wrong", "%s snapshot taken %s does not show the state at that moment: %s", sn.kind, where, d)
			}
		} else if sn.it != nil {
			want := world.ModelIterSweep(set, methods3, pool, prefixes)
			if d := world.DiffLines(sn.first[:len(want)], want); d != "" {
				res.fail("C03/snapshot-wrong", "%s snapshot taken %s does not show the state at that moment: %s", sn.kind, where, d)
			}
		}
		history = append(history, fmt.Sprintf("<%s snapshot>", sn.kind))
		live = append(live, sn)
		if len(live) > 4 {
			if live[0].cc != nil {
				live[0].cc.Close()
			}
			live = live[1:]
		}
	}

	nsteps := 3 + src.Intn("nsteps", 16)
	for step := 0; step < nsteps && !res.failed(); step++ {
		if src.Intn("snapnow", 3) == 2 {
			snap(fmt.Sprintf("before step %d", step), w.R, nil, committed)
		}
		if src.Intn("forkstep", 6) == 5 {
			// two lineages grown from one published version: a transaction registers a route, is captured and given up;
			// then the router itself registers another route next to it. Both lineages start from the same nodes, and what
			// the second does to them must not reach the captured first. Candidates are unregistered patterns, preferably
			// ones that sort after everything registered under the method (registration in lexical order); one time in two
			// such a pattern is registered directly first.
			m := methods3[0]
			cnt := map[string]int{}
			last := map[string]string{}
			for _, rt := range committed.Routes() {
				cnt[rt.Method]++
				if rt.Pattern > last[rt.Method] {
					last[rt.Method] = rt.Pattern
				}
			}
			for _, mm := range methods3 {
				if cnt[mm] > cnt[m] {
					m = mm
				}
			}
			var after, other []int
			for i, p := range pool {
				if committed.Get(m, p.Raw) != nil {
					continue
				}
				if p.Raw > last[m] {
					after = append(after, i)
				} else {
					other = append(other, i)
				}
			}
			cands := after
			if len(cands) < 2 || src.Intn("forkanywhere", 4) == 3 {
				cands = append(cands, other...)
			}
			if len(cands) >= 2 {
				res.inc("fork_steps")
				direct := func(pi int) bool {
					nextTag++
					op := WOp{Kind: "handle", Method: m, Pat: pi, Tag: nextTag}
					history = append(history, op.String())
					want := applyModel(committed, cfg, pool, op)
					if out := applyFox(w, w.R, pool, op); !sameOut(out, want) {
						res.fail("C03/write-result", "with snapshots alive: %v returned %v, the model says %v (history %v)", op, out, want, history)
						return false
					}
					recheck(op.String(), want.Class == "ok")
					return !res.failed()
				}
				pick := func() int {
					k := src.Intn("forkpick", len(cands))
					pi := cands[k]
					cands = append(cands[:k:k], cands[k+1:]...)
					return pi
				}
				if len(cands) >= 3 && sim.Bool(src, "forkprelude") && !direct(pick()) {
					break
				}
				a, b := pick(), pick()
				nextTag++
				op := WOp{Kind: "handle", Method: m, Pat: a, Tag: nextTag}
				history = append(history, "txn{"+op.String()+" <captured> abort}")
				private := committed.Clone()
				txn := w.R.Txn(true)
				want := applyModel(private, cfg, pool, op)
				if out := applyFox(w, txn, pool, op); !sameOut(out, want) {
					txn.Abort()
					res.fail("C03/write-result", "in a transaction with snapshots alive: %v returned %v, the model says %v (history %v)", op, out, want, history)
					break
				}
				snap("inside the forked transaction after "+op.String(), txn, txn, private)
				txn.Abort()
				if !res.failed() {
					recheck("the abort of the forked transaction", false)
				}
				if res.failed() || !direct(b) {
					break
				}
			}
		} else if src.Intn("txnstep", 3) == 2 {
			t := genTxnProgHint(src, pool, methods3, &nextTag, 6, 5, committed, cfg)
			history = append(history, t.String())
			private := committed.Clone()
			snapAt := -2
			if src.Intn("snapintxn", 2) == 1 {
				snapAt = src.Intn("snapat", len(t.Ops)+1) - 1
			}
			func() {
				defer func() {
					if p := recover(); p != nil {
						res.fail("C03/panic", "transaction %v panicked: %v", t, p)
					}
				}()
				ok := runTxn(w, pool, t, func(i int, txn *fox.Txn, op *WOp, out WOut) {
					if res.failed() {
						return
					}
					wrote := false
					if op != nil {
						want := applyModel(private, cfg, pool, *op)
						if !sameOut(out, want) {
							res.fail("C03/write-result", "in %v with snapshots alive: %v returned %v, the model says %v", t, *op, out, want)
							return
						}
						wrote = want.Class == "ok"
					}
					recheck(fmt.Sprintf("operation %d of %v", i, t), wrote)
					if i == snapAt && !res.failed() {
						snap(fmt.Sprintf("inside %v after operation %d", t, i), txn, txn, private)
						if src.Intn("manyviews", 10) == 9 {
							// hundreds of further views of the same transaction before its next write (whatever counts
							// views or generations must not wrap): 255 more make 256 with the one just taken
							n := sim.Pick(src, "nviews", []int{255, 255, 256, 254, 511, 512, 65535, 65536})
							kind := src.Intn("viewkind", 3)
							for v := 0; v < n; v++ {
								if kind == 0 || (kind == 2 && v%2 == 0) {
									_ = txn.Snapshot()
								} else {
									_ = txn.Iter()
								}
							}
							res.inc("transactions_with_hundreds_of_views")
							history = append(history, fmt.Sprintf("<%d further views>", n))
						}
					}
				})
				if ok {
					committed = private
				}
			}()
			if !res.failed() {
				recheck(fmt.Sprintf("the end of %v", t), false)
			}
		} else {
			nextTag++
			hint := genHint{last: -1}
			if src.Intn("biasedop", 4) != 0 {
				hint.set = committed
			}
			op := genWOpHint(src, pool, methods3, nextTag, false, 5, hint)
			history = append(history, op.String())
			want := applyModel(committed, cfg, pool, op)
			out := applyFox(w, w.R, pool, op)
			if !sameOut(out, want) {
				res.fail("C03/write-result", "with snapshots alive: %v returned %v, the model says %v (history %v)", op, out, want, history)
				break
			}
			recheck(op.String(), want.Class == "ok")
		}
		if !res.failed() {
			// writes are unaffected by the snapshots' existence
			if d := world.DiffLines(world.MapSweep(w.R, methods3, pool, prefixes), world.ModelMapSweep(committed, methods3, pool, prefixes)); d != "" {
				res.fail("C03/router-diverged", "after step %d with snapshots alive the router differs from the model: %s (history %v)", step, d, history)
			}
		}
	}
	for _, sn := range live {
		if sn.cc != nil {
			sn.cc.Close()
		}
	}
	res.Nontrivial = nontrivial
	res.CaseKey = hashStrings(append([]string{cfg.String()}, history...)...)
	res.Hash = hashStrings(fmt.Sprint(res.Checks), committed.Fingerprint(), fmt.Sprint(history))
	res.Steps = len(history)
	if o.Trace || res.Class != "" {
		res.Case["config"] = cfg.String()
		res.Case["pool"] = poolStrings(pool)
		res.Case["history"] = history
	}
}

// runC03Conc: snapshot holders re-observe between the steps of writer tasks.
func runC03Conc(src sim.Source, o Opts, res *Result) {
	cw := buildConcWorld(src, res, src.Intn("tsmode", 3))
	if cw == nil {
		return
	}
	tag := 1000
	for i := range cw.keys {
		if src.Intn("prefill", 3) != 0 {
			tag++
			cw.execWrite(cw.w.R, COp{Kind: "handle", Key: i, Tag: tag})
		}
	}
	prefixes := []string{"", "/", "/a", "a."}
	nw := 1 + src.Intn("writers", 2)
	nh := 1 + src.Intn("holders", 3)
	nextTag := 0
	var wprogs [][]COp
	for i := 0; i < nw; i++ {
		var p []COp
		for j, n := 0, 1+src.Intn("wops", 5); j < n; j++ {
			if src.Intn("istxn", 3) == 0 {
				p = append(p, COp{Kind: "txn", Txn: genCTxn(src, cw, &nextTag)})
			} else {
				nextTag++
				p = append(p, genWriteCOp(src, len(cw.keys), nextTag))
			}
		}
		wprogs = append(wprogs, p)
	}
	type holder struct {
		kind   string
		probe  int
		rounds int
	}
	var holders []holder
	for i := 0; i < nh; i++ {
		holders = append(holders, holder{kind: sim.Pick(src, "hkind", []string{"iter", "rotxn", "view", "lookupctx", "handler"}), probe: src.Intn("hprobe", len(cw.probes)), rounds: 2 + src.Intn("rounds", 4)})
	}
	s := sim.NewSched(src)
	s.KeepTrace = o.Trace
	drawPolicy(src, s)
	var writes sim.Counter
	fails := make([]string, nh)
	reobs := make([]int, nh)
	for i := 0; i < nw; i++ {
		i := i
		s.Go(fmt.Sprintf("writer%d", i), func(*sim.Task) {
			cw.runProgram(s, i, wprogs[i], &taskLog{})
			writes.Inc()
		})
	}
	for i, h := range holders {
		i, h := i, h
		s.Go(fmt.Sprintf("holder%d", i), func(*sim.Task) {
			loop := func(observe func() []string) {
				var first []string
				s.Atomic(func() { first = observe() })
				for r := 0; r < h.rounds && fails[i] == ""; r++ {
					s.Yield(sim.PtHeld)
					var got []string
					s.Atomic(func() { got = observe() })
					reobs[i]++
					if d := world.DiffLines(got, first); d != "" {
						fails[i] = fmt.Sprintf("%s snapshot held by holder%d changed: %s", h.kind, i, d)
					}
				}
			}
			pr := cw.probes[h.probe]
			switch h.kind {
			case "iter", "rotxn", "lookupctx":
				var sn *snapshot
				sn = takeSnapshot(h.kind, cw.w.R, nil, pr)
				if sn == nil {
					return
				}
				loop(func() []string { return sn.observe(cw.pool, prefixes, cw.probes) })
				if sn.cc != nil {
					sn.cc.Close()
				}
			case "view":
				_ = cw.w.R.View(func(txn *fox.Txn) error {
					sn := &snapshot{kind: "view", rd: txn}
					loop(func() []string { return sn.observe(cw.pool, prefixes, cw.probes) })
					return nil
				})
			case "handler":
				cw.w.Serve(pr, "", "", func(c fox.Context, hit *world.Hit) {
					loop(func() []string {
						return []string{fmt.Sprintf("ctx pattern=%s route#%d params=[%s] scope=%d path=%s", c.Pattern(), world.TagOf(c.Route()), world.FmtParams(world.CollectParams(c)), c.Scope(), c.Path())}
					})
				})
			}
		})
	}
	out := s.Run()
	res.Leaked = res.Leaked || s.Leaked()
	res.Steps = s.Steps
	res.Hash = s.Hash()
	res.add("context_switches", s.Switches)
	describe := func() {
		res.Case["config"] = cw.cfg.String()
		var keys []string
		for i, k := range cw.keys {
			keys = append(keys, fmt.Sprintf("k%d=%s %s", i, k.Method, k.Pat.Raw))
		}
		res.Case["keys"] = keys
		res.Case["writers"] = describeTasks(wprogs)
		res.Case["holders"] = fmt.Sprint(holders)
	}
	if o.Trace {
		describe()
	}
	switch out.Kind {
	case sim.Done:
	case sim.Deadlock:
		describe()
		res.fail("C03/deadlock", "%s", out.Detail)
		return
	case sim.Stalled:
		describe()
		res.Stack = out.Stack
		res.fail("C03/blocked", "task %s blocked in %s", out.Task.Name, out.State)
		return
	default:
		res.Trouble = fmt.Sprintf("scheduler: %s %s", out.Kind, out.Detail)
		return
	}
	for _, t := range s.Tasks {
		if t.Panic != nil {
			describe()
			res.Stack = t.PanicStack
			if strings.Contains(t.PanicStack, "github.com/tigerwill90/fox.") {
				res.fail("C03/panic", "task %s panicked: %v", t.Name, t.Panic)
			} else {
				res.Trouble = fmt.Sprintf("task %s panicked in harness code: %v\n%s", t.Name, t.Panic, t.PanicStack)
			}
			return
		}
	}
	total := 0
	for i, f := range fails {
		total += reobs[i]
		if f != "" {
			describe()
			res.fail("C03/snapshot-changed", "%s", f)
			return
		}
	}
	res.Checks = total
	res.Nontrivial = total > 0 && s.Switches > 0
	res.CaseKey = sim.Mix(s.SchedHash, hashStrings(append(describeTasks(wprogs), fmt.Sprint(holders))...))
}
