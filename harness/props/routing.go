package props

import (
	"fmt"
	"net/url"
	"sort"
	"strings"

	"github.com/tigerwill90/fox"

	"verif/harness/model"
	"verif/harness/sim"
	"verif/harness/world"
)

// routing engine shared by C01, C08, C09, C11: a seeded mutation history leaves the tree in whatever shape it leaves
// it; batches of probe requests are then routed through every entry point and compared with the reference model.

type routingFocus struct {
	prop       string
	tsOptions  bool // draw global / per-route trailing-slash options
	hostHeavy  bool
	methods    []string
	reserved   bool // C08: percent-encoded targets with reserved characters and query strings
	checkAllow bool // C11
	strictHost bool // C09: a slash-adjusted hostname candidate must be reported by every entry point (no path-only fallback accepted)
}

type routingRun struct {
	curReader world.Reader // the reader checkDirect is examining (the classifier of known findings asks the same one)
	twin    *world.World // C11: same routes and options, fox's built-in special handlers
	// C11: the connection of the previous unserved request and the Allow header it held when ServeHTTP returned
	prevConn  *world.Conn
	prevAllow string
	prevWhat  string
	src     sim.Source
	res     *Result
	f       routingFocus
	cfg     world.Cfg
	w       *world.World
	pool    []*model.Pattern
	set     *model.Set
	history []string
	nextTag int
	held    []fox.ContextCloser // contexts kept out of the pool to vary recycling
	skip    bool                // a setup write disagreed with the map model: that is C02's verdict, this run stops without one
}

func (rr *routingRun) build() bool {
	src := rr.src
	rr.cfg = world.DrawCfg(src)
	if !rr.f.tsOptions {
		rr.cfg.GlobalTS = 0
	}
	hosts := src.Intn("hosts", 3) == 2
	if rr.f.hostHeavy {
		hosts = src.Intn("hosts", 6) != 0
	}
	pc := world.PoolCfg{Size: 3 + src.Intn("poolsize", 11), MaxSegs: 1 + src.Intn("maxsegs", 6), Hosts: hosts,
		WildHeavy: sim.Bool(src, "wildheavy"), TSlash: src.Intn("tslash", 5), Fanout: src.Intn("fanout", 14) == 13, Deep: src.Intn("deep", 14) == 13, Odd: src.Intn("oddbytes", 5) == 4, Ladder: src.Intn("ladder", 10) == 9, ManyParams: src.Intn("manyparams", 40) == 39}
	rr.pool = world.GenPool(src, pc)
	if len(rr.pool) == 0 {
		return false
	}
	w, err := world.Build(rr.cfg)
	if err != nil {
		rr.res.Trouble = err.Error()
		return false
	}
	rr.w = w
	rr.set = model.NewSet()
	if pc.Fanout || pc.Deep || pc.Ladder || pc.ManyParams {
		msg, ok := prefillFanout(src, w, rr.set, rr.cfg, rr.pool, &rr.nextTag)
		if !ok {
			rr.res.inc("runs_stopped_setup_write_disagrees_with_map_model")
			return false
		}
		rr.history = append(rr.history, msg)
		if pc.Fanout {
			rr.res.inc("runs_with_fanout_above_50")
		}
		if pc.Deep {
			rr.res.inc("runs_on_tree_deeper_than_25")
		}
	}
	return true
}

// mutate applies n random effective-or-not write steps (direct or in transactions) to router and model.
func (rr *routingRun) mutate(n int) {
	src := rr.src
	for i := 0; i < n && !rr.res.failed() && !rr.skip; i++ {
		if src.Intn("txnstep", 5) == 4 {
			t := genTxnProg(src, rr.pool, rr.f.methods, &rr.nextTag, 5, 0)
			rr.fixOpts(t.Ops)
			rr.history = append(rr.history, t.String())
			private := rr.set.Clone()
			ok := false
			func() {
				defer func() {
					if p := recover(); p != nil {
						rr.res.fail(rr.f.prop+"/panic", "transaction %v panicked: %v", t, p)
					}
				}()
				ok = runTxn(rr.w, rr.pool, t, func(i int, txn *fox.Txn, op *WOp, out WOut) {
					if op != nil {
						want := applyModel(private, rr.cfg, rr.pool, *op)
						if !sameOut(out, want) && !rr.res.failed() {
							rr.skip = true
						}
					}
				})
			}()
			if ok {
				rr.set = private
			}
			continue
		}
		rr.nextTag++
		op := genWOp(src, rr.pool, rr.f.methods, rr.nextTag, false, 0)
		if src.Intn("preferinsert", 3) != 0 {
			op.Kind = "handle"
		}
		ops := []WOp{op}
		rr.fixOpts(ops)
		op = ops[0]
		rr.history = append(rr.history, op.String())
		want := applyModel(rr.set, rr.cfg, rr.pool, op)
		out := applyFox(rr.w, rr.w.R, rr.pool, op)
		if !sameOut(out, want) {
			rr.skip = true
		}
	}
}

func (rr *routingRun) fixOpts(ops []WOp) {
	for i := range ops {
		if !rr.f.tsOptions {
			ops[i].Opt.TS = 0
		}
	}
}

// churnPool varies which request contexts the pool hands out: some lookups keep their context for a while.
func (rr *routingRun) churnPool() {
	src := rr.src
	switch src.Intn("churn", 4) {
	case 1:
		p := world.GenProbe(src, rr.pool, rr.f.methods)
		req := world.NewRequest(p.Method, p.Host, p.Path, "", "", nil)
		if rt, cc, _ := rr.w.R.Lookup(world.NewRW(world.NewConn()), req); rt != nil {
			rr.held = append(rr.held, cc)
		}
	case 2:
		for _, cc := range rr.held {
			cc.Close()
		}
		rr.held = nil
	}
}

func fmtMatch(m model.MatchResult) string {
	if m.Route == nil {
		return "none"
	}
	return fmt.Sprintf("%s#%d tsr=%v [%s]", m.Route.Pattern, m.Route.Tag, m.TSR, world.FmtParams(m.Params))
}

// matchBoth evaluates the reference matcher under both readings of the one documented ambiguity (a mid-segment
// catch-all capturing a value that starts with '/'); when they differ either answer is accepted.
func (rr *routingRun) matchBoth(p world.Probe, path string) (a, b model.MatchResult, ambiguous bool) {
	a = rr.set.Match(p.Method, p.Host, path, model.MatchOpts{})
	b = rr.set.Match(p.Method, p.Host, path, model.MatchOpts{AllowLeadingSlashCapture: true})
	ambiguous = fmtMatch(a) != fmtMatch(b)
	if ambiguous {
		rr.res.inc("tolerance_leading_slash_capture")
	}
	return
}

func leadingSlashValue(ps []model.Param) bool {
	for _, p := range ps {
		if strings.HasPrefix(p.Value, "/") {
			return true
		}
	}
	return false
}

func sameDirect(o world.RouteObs, m model.MatchResult, withParams bool) bool {
	if m.Route == nil || m.TSR {
		return o.Tag == -1 || o.TSR
	}
	if o.Tag != m.Route.Tag || o.TSR {
		return false
	}
	return !withParams || world.FmtParams(o.Params) == world.FmtParams(m.Params)
}

// checkDirect is C01's oracle for one probe: every entry point selects the documented route with the documented
// parameters (or no direct match).
func (rr *routingRun) checkDirect(p world.Probe, rd world.Reader, where string) {
	res := rr.res
	rr.curReader = rd
	defer func() { rr.curReader = nil }()
	a, b, amb := rr.matchBoth(p, p.Path)
	res.Checks++
	if a.Backtracks > 0 {
		res.inc("probes_with_backtracking")
	}
	if a.Route != nil && !a.TSR {
		res.inc("probes_direct_match")
		if a.ViaHost {
			res.inc("probes_direct_via_host")
		}
	}
	// When the reference answer is a slash-adjusted hostname route, whether fox detects that candidate (and therefore
	// does not fall back to the path-only routes) is C08's question; C01 accepts the path-only answer as well.
	var fallback, fallbackB *model.MatchResult
	if a.Route != nil && a.TSR && a.ViaHost && !rr.f.strictHost {
		fb := rr.set.MatchPathOnly(p.Method, p.Path, model.MatchOpts{})
		fb2 := rr.set.MatchPathOnly(p.Method, p.Path, model.MatchOpts{AllowLeadingSlashCapture: true})
		fallback, fallbackB = &fb, &fb2
	}
	ok := func(o world.RouteObs, withParams bool) bool {
		if sameDirect(o, a, withParams) || (amb && sameDirect(o, b, withParams)) {
			return true
		}
		if fallback != nil && (sameDirect(o, *fallback, withParams) || sameDirect(o, *fallbackB, withParams) ||
			(fmtMatch(*fallback) != fmtMatch(*fallbackB) && o.Tag >= 0 && !o.TSR && (!withParams || leadingSlashValue(o.Params)))) {
			rr.res.inc("tolerance_host_tsr_is_c08")
			return true
		}
		// the converse: fox reports a slash-adjusted *hostname* candidate where the reference falls back to a path-only
		// route; whether that candidate exists is again C08's question (known finding tsr-spurious-parent-leaf)
		if o.Tag >= 0 && o.TSR && a.Route != nil && !a.ViaHost && !rr.f.strictHost {
			if r := rr.findByTag(o.Tag); r != nil && r.Pat.Host != "" {
				rr.res.inc("tolerance_host_tsr_is_c08")
				return true
			}
		}
		// documented ambiguity: any direct match that relies on a capture starting with '/' is tolerated when the
		// reference itself depends on that reading (the substitution round-trip below still applies)
		// (C09's strict mode: the same holds for a slash-adjusted answer that relies on such a capture)
		return amb && (!withParams || leadingSlashValue(o.Params)) && o.Tag >= 0 && (!o.TSR || rr.f.strictHost)
	}
	lk := world.ObsLookup(rd, p)
	if !ok(lk, true) {
		rr.mismatch("lookup", p, where, lk.String(), fmtMatch(a))
		return
	}
	rv := world.ObsReverse(rd, p)
	if !ok(rv, false) {
		rr.mismatch("reverse", p, where, rv.String(), fmtMatch(a))
		return
	}
	// substituting the reported parameters into the selected pattern reproduces host and path
	if lk.Tag >= 0 && !lk.TSR {
		if r := rr.findByTag(lk.Tag); r != nil {
			got, okSub := r.Pat.Substitute(lk.Params)
			want := p.Path
			if r.Pat.Host != "" {
				want = model.StripHost(p.Host) + p.Path
			}
			if !okSub || got != want {
				res.fail(rr.f.prop+"/reconstruction", "%s: %v selected %s with params [%s]; substituting them gives %q, not %q", where, p, r.Pattern, world.FmtParams(lk.Params), got, want)
				return
			}
		}
	}
	// iterator Reverse agrees
	it := rd.Iter()
	var viaIter *fox.Route
	for _, r := range it.Reverse(func(y func(string) bool) { y(p.Method) }, p.Host, p.Path) {
		viaIter = r
	}
	if a.Route != nil && !a.TSR && !amb && !(lk.Tag >= 0 && lk.TSR) {
		if viaIter == nil || world.TagOf(viaIter) != a.Route.Tag {
			rr.mismatch("iter.reverse", p, where, fmt.Sprintf("#%d", world.TagOf(viaIter)), fmtMatch(a))
			return
		}
	}
	if lk.Tag >= 0 && !lk.TSR && (viaIter == nil || world.TagOf(viaIter) != lk.Tag) {
		res.fail(rr.f.prop+"/entry-points-disagree", "%s: %v: Lookup selects #%d but Iter.Reverse yields #%d", where, p, lk.Tag, world.TagOf(viaIter))
		return
	}
}

func (rr *routingRun) findByTag(tag int) *model.Route {
	for _, r := range rr.set.Routes() {
		if r.Tag == tag {
			return r
		}
	}
	return nil
}

// starSegmentFinding recognises the known finding C01/star-segment-prefers-catch-all: the request has a '*' where a
// wildcard begins its capture (at the start of a segment, or after a static prefix as in /ab*{c}), and fox answers with a route whose catch-all captured text beginning with that '*' although the
// documented order (static, then parameter, then catch-all) selects another route. Nothing else is covered by it.
func (rr *routingRun) starSegmentFinding(p world.Probe) bool {
	if !strings.Contains(p.Path, "*") {
		return false
	}
	var rd world.Reader = rr.w.R
	if rr.curReader != nil {
		rd = rr.curReader
	}
	lk := world.ObsLookup(rd, p)
	if lk.Tag < 0 || lk.TSR {
		return false
	}
	r := rr.findByTag(lk.Tag)
	if r == nil {
		return false
	}
	for _, pr := range lk.Params {
		if strings.HasPrefix(pr.Value, "*") && strings.Contains(r.Pattern, "*{"+pr.Key+"}") {
			return true
		}
	}
	return false
}

func (rr *routingRun) mismatch(entry string, p world.Probe, where, got, want string) {
	if rr.f.prop == "C01" && rr.starSegmentFinding(p) {
		rr.res.known("C01/star-segment-prefers-catch-all", fmt.Sprintf("%s: %s %v = %s, documented rules select %s; routes: %s", where, entry, p, got, want, setString(rr.set, p.Method)))
		return
	}
	rr.res.fail(rr.f.prop+"/wrong-route", "%s: %s %v = %s, documented rules select %s; routes: %s", where, entry, p, got, want, setString(rr.set, p.Method))
}

func setString(s *model.Set, method string) string {
	var out []string
	for _, r := range s.Routes() {
		if r.Method == method {
			out = append(out, fmt.Sprintf("%s#%d", r.Pattern, r.Tag))
		}
	}
	return strings.Join(out, " ")
}

func (rr *routingRun) describe() {
	rr.res.Case["config"] = rr.cfg.String()
	rr.res.Case["pool"] = poolStrings(rr.pool)
	rr.res.Case["history"] = rr.history
	rr.res.Case["final_set"] = rr.set.Fingerprint()
}

// ---- C01 ------------------------------------------------------------------------------------------------------------

func init() {
	register(&Prop{
		ID: "C01", Level: "exploration",
		Rule: "one case = a router whose tree was shaped by a seeded mutation history (inserts, updates, deletes, truncations, committed and aborted transactions, copy cache capacity drawn) over a pool of 3-13 patterns built by extending and mutating earlier entries (shared prefixes, same wildcard names at the same positions, full- and mid-segment parameters, suffix and infix catch-alls, hostnames, optional 56-sibling fan-out), probed in batches between mutation steps with requests derived from the pool (instantiated patterns, perturbed); every probe goes through Lookup (route, parameters), Reverse, Iter.Reverse and ServeHTTP (handler identity and Context.Params), on the router, on read-only transactions and inside open write transactions, with contexts held open to vary pool recycling; the oracle is the reference matcher (uncompressed token trie, depth-first static > parameter > catch-all), the substitution round-trip, and agreement of all entry points. Which slash-adjusted route is offered is judged by C08 only. One probe in ten has a segment prefixed with '*' or '{' (plain text in a request); the deviation this exposes - the catch-all child tried before the parameter child for a segment beginning with '*' - is the known finding C01/star-segment-prefers-catch-all, recognised by a structural predicate and reported as KNOWN-FINDING. Non-trivial: at least one probe needed backtracking in the reference matcher and at least 3 probes matched directly; distinct = hash of (final set, probes).",
		Run:  runC01, Quick: 64000, Thorough: 12800000,
		Real: commonReal, Stub: commonStub,
		Tolerances: []string{"leading_slash_capture: where a mid-segment catch-all could capture a value starting with '/' (README allows it for a suffix catch-all, the property statement speaks of non-empty segments) both answers are accepted and counted"},
		Domain:     []string{"request paths start with '/', contain no empty segment (one trailing slash allowed); hosts lower case; segment alphabet {a,b,ab,ba,c,abc}; <= 6 segments, <= 14 routes (+56 fan-out siblings)", "exhaustive small-alphabet enumeration mentioned by the quantifier is model checking and is not done"},
	})
}

func runC01(src sim.Source, o Opts) *Result {
	res := newResult()
	rr := &routingRun{src: src, res: res, f: routingFocus{prop: "C01", methods: methods3}}
	if !rr.build() {
		return res
	}
	rounds := 2 + src.Intn("rounds", 4)
	var probeKeys []string
	for r := 0; r < rounds && !res.failed(); r++ {
		rr.mutate(1 + src.Intn("mutations", 6))
		if rr.skip {
			res.inc("runs_stopped_setup_write_disagrees_with_map_model")
			break
		}
		if res.failed() {
			break
		}
		nprobes := 3 + src.Intn("nprobes", 8)
		for i := 0; i < nprobes && !res.failed(); i++ {
			rr.churnPool()
			p := world.GenProbe(src, rr.pool, rr.f.methods)
			if p.Host != "" && !strings.ContainsAny(p.Host, ":") && !strings.HasSuffix(p.Host, ".") && src.Intn("nearmisshost", 6) == 0 {
				// a Host that is almost the registered one (extra or missing byte or label, port, trailing dot): no route
				// unless some pattern really matches it
				oh, _ := world.Instantiate(src, rr.pool[src.Intn("op", len(rr.pool))])
				p.Host, _ = hostVariants(src, p.Host, oh)
				res.inc("probes_with_near_miss_host")
			}
			if src.Intn("starsegment", 10) == 9 {
				// a request segment that begins with '*' (or '{'): plain text for a request - the markers only mean
				// something in patterns - so a {param} takes it like any other segment, before a catch-all does
				if segs := strings.Split(p.Path, "/"); len(segs) > 1 {
					k := 1 + src.Intn("starsegmentat", len(segs)-1)
					if segs[k] != "" {
						mark := sim.Pick(src, "starsegmentmark", []string{"*", "*", "{"})
						if at := src.Intn("starsegmentoffset", 3); at > 0 && at < len(segs[k]) {
							// ... or right after the first byte(s) of the segment: where a wildcard with a static prefix
							// (/ab{p}, /ab*{c}) begins its capture
							segs[k] = segs[k][:at] + mark + segs[k][at:]
						} else {
							segs[k] = mark + segs[k]
						}
						p.Path = strings.Join(segs, "/")
						res.inc("probes_with_a_segment_starting_with_a_wildcard_marker")
					}
				}
			}
			probeKeys = append(probeKeys, fmt.Sprint(p))
			where := fmt.Sprintf("round %d", r)
			rr.checkDirect(p, rr.w.R, where+" (router)")
			if res.failed() {
				break
			}
			rr.checkServeDirect(p, where)
			if res.failed() {
				break
			}
			switch src.Intn("via", 6) {
			case 4:
				txn := rr.w.R.Txn(false)
				rr.checkDirect(p, txn, where+" (read-only txn)")
				txn.Abort()
			case 5:
				// inside an open write transaction that has made an uncommitted write
				rr.nextTag++
				op := genWOp(src, rr.pool, rr.f.methods, rr.nextTag, false, 0)
				op.Kind, op.Opt.TS = "handle", 0
				txn := rr.w.R.Txn(true)
				saved := rr.set
				rr.set = rr.set.Clone()
				want := applyModel(rr.set, rr.cfg, rr.pool, op)
				out := applyFox(rr.w, txn, rr.pool, op)
				if sameOut(out, want) {
					rr.checkDirect(p, txn, where+fmt.Sprintf(" (inside write txn after %v)", op))
				}
				txn.Abort()
				rr.set = saved
			}
		}
	}
	for _, cc := range rr.held {
		cc.Close()
	}
	res.Nontrivial = res.Stats["probes_with_backtracking"] >= 1 && res.Stats["probes_direct_match"] >= 3
	res.CaseKey = hashStrings(append([]string{rr.set.Fingerprint()}, probeKeys...)...)
	res.Hash = hashStrings(fmt.Sprint(res.Checks), rr.set.Fingerprint(), fmt.Sprint(rr.history), fmt.Sprint(probeKeys))
	res.Steps = len(rr.history)
	if o.Trace || res.Class != "" {
		rr.describe()
	}
	return res
}

// checkServeDirect: ServeHTTP runs the documented route's handler with the documented parameters (trailing-slash
// options are off in C01, so a request without direct match must not reach a route handler).
// drawAuthority makes one request in four an absolute-form one whose target names another authority than its Host
// field: the host of some pattern of the pool, or a foreign one. Routing goes by the Host field.
func (rr *routingRun) drawAuthority() {
	if rr.src.Intn("absform", 4) != 3 {
		return
	}
	rr.w.URLAuthority = "other.invalid:81"
	if len(rr.pool) > 0 {
		if h, _ := world.Instantiate(rr.src, rr.pool[rr.src.Intn("absformhost", len(rr.pool))]); h != "" {
			rr.w.URLAuthority = h
		}
	}
	rr.res.inc("requests_in_absolute_form_with_other_authority")
}

func (rr *routingRun) checkServeDirect(p world.Probe, where string) {
	a, b, amb := rr.matchBoth(p, p.Path)
	rr.drawAuthority()
	obs := rr.w.Serve(p, "", "", nil)
	rr.w.URLAuthority = ""
	rr.res.Checks++
	if obs.Panic != nil {
		rr.res.fail(rr.f.prop+"/panic", "%s: ServeHTTP %v panicked: %v", where, p, obs.Panic)
		return
	}
	okFor := func(m model.MatchResult) bool {
		if m.Route != nil && !m.TSR {
			return obs.Kind == model.KRoute && obs.Hit.Tag == m.Route.Tag && world.FmtParams(obs.Hit.Params) == world.FmtParams(m.Params) && obs.Hit.Pattern == m.Route.Pattern
		}
		return obs.Kind != model.KRoute
	}
	if a.Route != nil && a.TSR && a.ViaHost && !rr.f.strictHost {
		fb := rr.set.MatchPathOnly(p.Method, p.Path, model.MatchOpts{})
		fb2 := rr.set.MatchPathOnly(p.Method, p.Path, model.MatchOpts{AllowLeadingSlashCapture: true})
		if okFor(fb) || okFor(fb2) || (fmtMatch(fb) != fmtMatch(fb2) && obs.Kind == model.KRoute && leadingSlashValue(obs.Hit.Params)) {
			return
		}
	}
	if a.Route != nil && !a.TSR && !a.ViaHost && obs.Kind != model.KRoute && !rr.f.strictHost {
		// fox may have stopped at a (spurious) slash-adjusted hostname candidate instead of falling back: C08's question
		if lk := world.ObsLookup(rr.w.R, p); lk.Tag >= 0 && lk.TSR {
			if r := rr.findByTag(lk.Tag); r != nil && r.Pat.Host != "" {
				rr.res.inc("tolerance_host_tsr_is_c08")
				return
			}
		}
	}
	if amb && rr.f.strictHost && obs.Kind != model.KRoute {
		// documented ambiguity: fox stopped at a slash-adjusted candidate that relies on a capture starting with '/'
		if lk := world.ObsLookup(rr.w.R, p); lk.Tag >= 0 && lk.TSR && leadingSlashValue(lk.Params) {
			return
		}
	}
	if !okFor(a) && !(amb && okFor(b)) && !(amb && obs.Kind == model.KRoute && leadingSlashValue(obs.Hit.Params)) {
		got := obs.Kind.String()
		if obs.Kind == model.KRoute {
			got = fmt.Sprintf("route %s#%d [%s]", obs.Hit.Pattern, obs.Hit.Tag, world.FmtParams(obs.Hit.Params))
		}
		rr.mismatch("ServeHTTP", p, where, got, fmtMatch(a))
	}
}

var _ = sort.Strings
var _ = url.Parse
