package props

import (
	"fmt"
	"strings"

	"github.com/tigerwill90/fox"

	"verif/harness/sim"
	"verif/harness/world"
)

func init() {
	register(&Prop{
		ID: "C06", Level: "exploration",
		Rule: "one case = (a) a writer task parked at one stage of a write transaction's life - lock just taken, root loaded, after k uncommitted writes, inside an Updates function, after Snapshot()/Iter(), after Truncate (all methods or one), at commit, before the store, after the store with the lock still held, before unlock - while 1-4 reader tasks run 1-3 read entry points each to completion (ServeHTTP incl. trailing-slash/404/405/OPTIONS answers, a slow client that parks the request inside the write of whichever handler answers, and handlers that read the router, Lookup+Close, Reverse, Has, Route, Len, Iter.All/Methods/Prefix/Routes/Reverse, read-only Txn with Commit/Abort and Snapshot, a read-only Txn that outlived two commits used for 36-99 lookups, View, Stats, NewRoute); the writer is released only after every reader finished, so a reader that needs the writer lock shows up as lock-waiting (instrumented Lock) or as a goroutine blocked in a sync primitive (stall detector), both violations; or (b) the converse: readers parked mid-iteration / holding a Lookup context / inside a handler / inside View while 1-2 writers must run to completion. Router options are drawn per run; one run in six works on a tree deeper than 25 levels (iterators then size their stack from the tree depth). Non-trivial: at least one reader ran while the writer was parked (a) or a writer committed while a reader was parked (b); distinct = hash of (stage, reader programs, schedule).",
		Run:  runC06, Quick: 96000, Thorough: 16000000,
		Real: commonReal, Stub: commonStub,
		Domain:      []string{"the static half of the quantifier (every call path reachable in the call graph) is static analysis and is not done; reach is dynamic: every public read entry point is driven"},
		Assumptions: []string{"a goroutine found in a blocking wait state on two consecutive stack samples (50 ms + 20 ms) while every other task is parked by the simulator is blocked by the code under test"},
	})
}

var c06Reads = []string{"serve", "serve_slowclient", "serve_inner", "lookup", "reverse", "has", "route", "len", "iter_all", "iter_methods", "iter_prefix", "iter_routes", "iter_reverse", "rotxn", "rotxn_stale", "rotxn_snapshot", "view", "stats", "newroute", "clone"}

func (cw *concWorld) c06Read(s *sim.Sched, kind string, a, b int, park func()) {
	k := cw.keys[a%len(cw.keys)]
	pr := cw.probes[b%len(cw.probes)]
	r := cw.w.R
	switch kind {
	case "serve":
		cw.w.Serve(pr, "", "", func(c fox.Context, h *world.Hit) { s.Yield(sim.PtHandler); park() })
	case "serve_slowclient":
		// the client takes its time to accept the response: the request is parked inside whatever writes the answer -
		// the route handler or one of the router's own handlers (redirect, 404, 405, OPTIONS)
		once := false
		slow := func() {
			if !once {
				once = true
				s.Yield(sim.PtHandler)
				park()
			}
		}
		cw.w.ConnHook = func(c *world.Conn) { c.OnHeader, c.OnWrite = slow, slow }
		cw.w.Serve(pr, "", "", nil)
		if !once {
			park()
		}
	case "serve_inner":
		cw.w.Serve(pr, "", "", func(c fox.Context, h *world.Hit) {
			s.Yield(sim.PtHandler)
			f := c.Fox()
			f.Has(k.Method, k.Pat.Raw)
			f.Len()
			_, _ = f.Reverse(pr.Method, pr.Host, pr.Path)
			for range f.Iter().All() {
			}
			cl := c.Clone()
			_ = cl.Pattern()
			cc := c.CloneWith(c.Writer(), c.Request())
			cc.Close()
			park()
		})
	case "lookup":
		req := world.NewRequest(pr.Method, pr.Host, pr.Path, "", "", nil)
		rt, cc, _ := r.Lookup(world.NewRW(world.NewConn()), req)
		s.Yield(sim.PtHeld)
		park()
		if rt != nil {
			_ = world.CollectParams(cc)
			cc.Close()
		}
	case "reverse":
		host := pr.Host
		if host != "" && b%3 == 0 {
			host += ":8080" // the port is stripped on the way: still a plain lock-free read
		}
		r.Reverse(pr.Method, host, pr.Path)
	case "has":
		r.Has(k.Method, k.Pat.Raw)
	case "route":
		r.Route(k.Method, k.Pat.Raw)
	case "len":
		r.Len()
	case "iter_all":
		it := r.Iter()
		s.Yield(sim.PtIter)
		n := 0
		for range it.All() {
			if n == 0 {
				park()
			}
			n++
			s.Yield(sim.PtIter)
		}
		if n == 0 {
			park()
		}
	case "iter_methods":
		for range r.Iter().Methods() {
			s.Yield(sim.PtIter)
		}
	case "iter_prefix":
		it := r.Iter()
		for range it.Prefix(it.Methods(), k.Pat.Raw[:1+a%len(k.Pat.Raw)]) {
			s.Yield(sim.PtIter)
		}
	case "iter_routes":
		it := r.Iter()
		for range it.Routes(it.Methods(), k.Pat.Raw) {
			s.Yield(sim.PtIter)
		}
	case "iter_reverse":
		it := r.Iter()
		for range it.Reverse(it.Methods(), pr.Host, pr.Path) {
			s.Yield(sim.PtIter)
		}
	case "rotxn":
		txn := r.Txn(false)
		txn.Has(k.Method, k.Pat.Raw)
		s.Yield(sim.PtHeld)
		park()
		txn.Len()
		for range txn.Iter().All() {
		}
		_, _ = txn.Reverse(pr.Method, pr.Host, pr.Path)
		if a%2 == 0 {
			txn.Commit()
		} else {
			txn.Abort()
		}
	case "rotxn_stale":
		// a read-only transaction that has outlived its version (commits happened since it was opened), used for a long
		// series of lookups: a view of the past needs nothing from the writers of the present, however long it is used
		var txn *fox.Txn
		if n := len(cw.stale); n > 0 {
			txn, cw.stale = cw.stale[n-1], cw.stale[:n-1]
		} else {
			txn = r.Txn(false)
		}
		for i, n := 0, 36+b; i < n; i++ {
			switch (a + i) % 4 {
			case 0:
				txn.Has(k.Method, k.Pat.Raw)
			case 1:
				txn.Route(k.Method, k.Pat.Raw)
			case 2:
				_, _ = txn.Reverse(pr.Method, pr.Host, pr.Path)
			default:
				if rt, cc, _ := txn.Lookup(world.NewRW(world.NewConn()), world.NewRequest(pr.Method, pr.Host, pr.Path, "", "", nil)); rt != nil {
					cc.Close()
				}
			}
			if i%8 == 7 {
				s.Yield(sim.PtHeld)
			}
		}
		park()
		txn.Len()
		txn.Abort()
	case "rotxn_snapshot":
		// a snapshot of a read-only transaction (and of a managed one) is a read like any other
		txn := r.Txn(false)
		sn := txn.Snapshot()
		s.Yield(sim.PtHeld)
		park()
		sn.Has(k.Method, k.Pat.Raw)
		sn.Len()
		sn.Abort()
		txn.Abort()
		_ = r.View(func(v *fox.Txn) error {
			vs := v.Snapshot()
			_ = vs.Len()
			return nil
		})
	case "view":
		_ = r.View(func(txn *fox.Txn) error {
			txn.Route(k.Method, k.Pat.Raw)
			s.Yield(sim.PtTxnFn)
			park()
			txn.Len()
			return nil
		})
	case "stats":
		_ = r.Stats()
	case "newroute":
		_, _ = r.NewRoute(k.Pat.Raw, world.Handler(0), world.FoxOpts(0, world.RouteOpt{MW: []int{1}})...)
	case "clone":
		req := world.NewRequest(pr.Method, pr.Host, pr.Path, "", "", nil)
		rt, cc, _ := r.Lookup(world.NewRW(world.NewConn()), req)
		if rt != nil {
			cl := cc.Clone()
			cc.Close()
			_ = cl.Pattern()
		}
	default:
		panic("c06Read " + kind)
	}
}

type c06Read struct {
	Kind string
	A, B int
}

func runC06(src sim.Source, o Opts) *Result {
	res := newResult()
	res.Case["prop"] = "C06"
	cw := buildConcWorld(src, res, src.Intn("tsmode", 3))
	if cw == nil {
		return res
	}
	// some registered content (direct writes before the run starts)
	tag := 1000
	for i := range cw.keys {
		if src.Intn("prefill", 3) != 0 {
			tag++
			cw.execWrite(cw.w.R, COp{Kind: "handle", Key: i, Tag: tag})
		}
	}
	// read-only transactions for the "rotxn_stale" readers, opened now; two commits that leave the route set as it is follow
	for range 8 {
		cw.stale = append(cw.stale, cw.w.R.Txn(false))
	}
	if _, err := cw.w.R.Handle("GET", ballastPrefix+"stale", world.Handler(0)); err == nil {
		_, err = cw.w.R.Delete("GET", ballastPrefix+"stale")
		if err != nil {
			res.Trouble = "stale setup: " + err.Error()
			return res
		}
	} else {
		res.Trouble = "stale setup: " + err.Error()
		return res
	}
	s := sim.NewSched(src)
	s.KeepTrace = o.Trace
	drawPolicy(src, s)
	s.MaxSteps = 20000 // bounded liveness: ordinary runs need a few hundred steps
	converse := src.Intn("converse", 10) >= 7
	nr := 1 + src.Intn("readers", 4)
	readerProgs := make([][]c06Read, nr)
	for i := range readerProgs {
		for j, n := 0, 1+src.Intn("nreads", 3); j < n; j++ {
			readerProgs[i] = append(readerProgs[i], c06Read{Kind: sim.Pick(src, "read", c06Reads), A: src.Intn("a", 64), B: src.Intn("b", 64)})
		}
	}
	nextTag := 0
	var readersDone, writersDone, parked, ranWhileParked sim.Counter
	var stage string

	if !converse {
		prog := genCTxn(src, cw, &nextTag)
		stages := []string{"pt:locked", "pt:after_load", "opened", "after_writes", "after_snapshot", "after_iter", "after_truncate", "after_truncate_method"}
		if prog.End == "commit" {
			stages = append(stages, "pt:commit", "pt:before_store", "pt:stored", "pt:before_unlock")
		} else {
			stages = append(stages, "pt:abort", "pt:before_unlock")
		}
		stage = sim.Pick(src, "stage", stages)
		holdAfter := src.Intn("holdafter", len(prog.Ops)+1)
		gate := readersDone.AtLeast(nr)
		wt := s.Go("writer", func(*sim.Task) {
			defer writersDone.Inc()
			hold := func() {
				parked.Inc()
				s.Note("writer_parked", stage)
				s.WaitUntil("readers to finish", gate)
			}
			body := func(txn *fox.Txn) error {
				if stage == "opened" {
					hold()
				}
				for i, op := range prog.Ops {
					if i == holdAfter {
						switch stage {
						case "after_writes":
							hold()
						case "after_snapshot":
							sn := txn.Snapshot()
							hold()
							_ = sn.Len()
						case "after_iter":
							it := txn.Iter()
							hold()
							for range it.All() {
							}
						case "after_truncate":
							_ = txn.Truncate()
							hold()
						case "after_truncate_method":
							_ = txn.Truncate("GET")
							hold()
						}
					}
					if i == prog.EndAt && prog.End != "commit" {
						if prog.End == "panic" {
							panic(injectedPanic{i})
						}
						return errInjected
					}
					switch op.Kind {
					case "has", "route":
						cw.execRead(s, txn, op)
					default:
						cw.execWrite(txn, op)
					}
				}
				if holdAfter == len(prog.Ops) && (stage == "after_writes" || stage == "after_snapshot" || stage == "after_iter" || strings.HasPrefix(stage, "after_truncate")) {
					if strings.HasPrefix(stage, "after_truncate") {
						_ = txn.Truncate()
					}
					hold()
				}
				if prog.End != "commit" {
					if prog.End == "panic" {
						panic(injectedPanic{len(prog.Ops)})
					}
					return errInjected
				}
				return nil
			}
			defer func() {
				if p := recover(); p != nil {
					if _, ok := p.(injectedPanic); !ok {
						panic(p)
					}
				}
			}()
			if prog.Managed {
				_ = cw.w.R.Updates(body)
				return
			}
			txn := cw.w.R.Txn(true)
			defer txn.Abort()
			if body(txn) == nil {
				txn.Commit()
			}
		})
		var hold *sim.Hold
		if strings.HasPrefix(stage, "pt:") {
			pt := map[string]sim.Point{"pt:locked": sim.PtLocked, "pt:after_load": sim.PtAfterLoad, "pt:commit": sim.PtCommit, "pt:before_store": sim.PtBeforeStore,
				"pt:stored": sim.PtStored, "pt:before_unlock": sim.PtBeforeUnlock, "pt:abort": sim.PtAbort}[stage]
			hold = &sim.Hold{Task: wt, Point: pt, Gate: gate}
			s.SetHold(hold)
		}
		isParked := func() bool { return parked.Get() > 0 || (hold != nil && hold.Hit) || writersDone.Get() > 0 }
		for i := 0; i < nr; i++ {
			i := i
			s.Go(fmt.Sprintf("reader%d", i), func(*sim.Task) {
				defer readersDone.Inc()
				s.WaitUntil("writer to park", isParked)
				if writersDone.Get() == 0 {
					ranWhileParked.Inc()
				}
				for _, rd := range readerProgs[i] {
					cw.c06Read(s, rd.Kind, rd.A, rd.B, func() {})
					s.Yield(sim.PtUser)
				}
			})
		}
		res.Case["writer"] = fmt.Sprintf("txn(managed=%v %v end=%s@%d) parked at %s (after op %d)", prog.Managed, prog.Ops, prog.End, prog.EndAt, stage, holdAfter)
	} else {
		// converse: readers hold snapshots/contexts while writers must complete
		nw := 1 + src.Intn("writers", 2)
		stage = "converse"
		gate := writersDone.AtLeast(nw)
		var wprogs [][]COp
		for i := 0; i < nw; i++ {
			var p []COp
			for j, n := 0, 1+src.Intn("wops", 4); j < n; j++ {
				if src.Intn("truncabort", 5) == 4 {
					p = append(p, COp{Kind: "truncabort", Key: src.Intn("trunckey", len(cw.keys)+1) - 1})
				} else if src.Intn("istxn", 3) == 0 {
					p = append(p, COp{Kind: "txn", Txn: genCTxn(src, cw, &nextTag)})
				} else {
					nextTag++
					p = append(p, genWriteCOp(src, len(cw.keys), nextTag))
				}
			}
			wprogs = append(wprogs, p)
		}
		for i := 0; i < nr; i++ {
			i := i
			s.Go(fmt.Sprintf("reader%d", i), func(*sim.Task) {
				for _, rd := range readerProgs[i] {
					cw.c06Read(s, rd.Kind, rd.A, rd.B, func() {
						parked.Inc()
						s.WaitUntil("writers to finish", gate)
					})
				}
				readersDone.Inc()
			})
		}
		for i := 0; i < nw; i++ {
			i := i
			s.Go(fmt.Sprintf("writer%d", i), func(*sim.Task) {
				// deferred: the program may end the task through runtime.Goexit inside a transaction
				defer func() {
					if parked.Get() > 0 && readersDone.Get() < nr {
						ranWhileParked.Inc()
					}
					writersDone.Inc()
				}()
				cw.runProgram(s, i, wprogs[i], &taskLog{})
			})
		}
		res.Case["writers"] = describeTasks(wprogs)
	}
	var rp []string
	for i, p := range readerProgs {
		rp = append(rp, fmt.Sprintf("reader%d: %v", i, p))
	}
	res.Case["readers"] = rp
	res.Case["config"] = cw.cfg.String()
	res.Case["stage"] = stage

	out := s.Run()
	res.Leaked = res.Leaked || s.Leaked()
	res.Steps = s.Steps
	res.Hash = s.Hash()
	res.Checks = nr
	res.inc("stage_" + stage)
	switch out.Kind {
	case sim.Done:
	case sim.Deadlock:
		if converse {
			res.fail("C06/writer-waits-for-reader", "writers cannot finish while readers hold snapshots/contexts: %s", out.Detail)
		} else {
			res.fail("C06/read-waits-for-writer", "with the writer parked at %s a read path waits for it: %s", stage, out.Detail)
		}
		return res
	case sim.Stalled:
		res.Stack = out.Stack
		res.fail("C06/read-blocked", "task %s is blocked in %s (outside the simulator's gates) at stage %s", out.Task.Name, out.State, stage)
		return res
	case sim.StepLimit:
		// some task keeps yielding without ever finishing while the others are parked: a read path (or, in the converse
		// scenario, a writer) spin-waits for a state only the parked side can change
		var spinning []string
		for _, t := range s.Tasks {
			if !t.Finished && t.Steps > 1000 {
				spinning = append(spinning, t.Name)
			}
		}
		if converse {
			res.fail("C06/writer-waits-for-reader", "after %d scheduler steps %v still spin without finishing while readers are parked", s.Steps, spinning)
		} else {
			res.fail("C06/read-spins-for-writer", "with the writer parked at %s, %v did not finish within %d scheduler steps (spin-wait on state only the writer can change)", stage, spinning, s.Steps)
		}
		return res
	default:
		res.Trouble = fmt.Sprintf("scheduler: %s %s", out.Kind, out.Detail)
		return res
	}
	for _, t := range s.Tasks {
		if t.Panic != nil {
			res.Stack = t.PanicStack
			if strings.Contains(t.PanicStack, "github.com/tigerwill90/fox.") {
				res.fail("C06/panic", "task %s panicked: %v", t.Name, t.Panic)
			} else {
				res.Trouble = fmt.Sprintf("task %s panicked in harness code: %v\n%s", t.Name, t.Panic, t.PanicStack)
			}
			return res
		}
		if strings.HasPrefix(t.Name, "reader") && t.LockWaits > 0 {
			res.fail("C06/read-takes-writer-lock", "%s had to wait for the writer lock (stage %s)", t.Name, stage)
			return res
		}
	}
	res.add("readers_ran_with_parked_writer", ranWhileParked.Get())
	if s.LockWaits > 0 {
		res.inc("probe_two_writers_contended")
	}
	res.Nontrivial = ranWhileParked.Get() > 0
	res.CaseKey = sim.Mix(s.SchedHash, hashStrings(stage, fmt.Sprint(readerProgs), fmt.Sprint(res.Case["writer"]), fmt.Sprint(res.Case["writers"])))
	return res
}
