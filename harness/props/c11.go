package props

import (
	"fmt"
	"net/url"
	"sort"
	"strings"

	"github.com/tigerwill90/fox"

	"verif/harness/model"
	"verif/harness/sim"
	"verif/harness/world"
)

var methodsC11 = []string{"GET", "POST", "PURGE", "OPTIONS", "CONNECT"}

func init() {
	register(&Prop{
		ID: "C11", Level: "exploration",
		Rule: "one case = a router shaped by a seeded mutation history over routes of GET/POST/PURGE/OPTIONS with per-route trailing-slash options, under one of the four combinations of the method-not-allowed and auto-OPTIONS options (custom recording no-route/no-method/options handlers; the built-in redirect handler is observed through a middleware scoped to it); probes use every method incl. OPTIONS, methods without routes, the target '*', and (one in four) a request whose escaped path differs from the decoded one (%2F, %20 inside a segment: routing and the Allow scan work on the escaped form). Oracle for requests no route serves: which special handler runs (OPTIONS with auto replies: options handler iff some method serves the target, else no-route; otherwise no-method iff another method serves it and the option is on; otherwise no-route), the Allow header compared as a set with exactly the methods whose reference match serves host+path directly or by ignoring a trailing slash (+OPTIONS as stated; for '*' every method that has routes), and the context seen by the handler (no route, empty pattern, no parameters, the handler's scope). Where a per-method routing answer falls in a listed C08 known finding, the composition rules are checked against fox's own per-method answer and the finding is counted. One round in two a twin router with fox's built-in handlers (WithNoMethod/WithAutoOptions, no custom handlers) is built from the same set: it must answer 404/405/200 with the same Allow header. Non-trivial: at least 2 probes were answered by a special handler with a non-empty Allow header; distinct = hash of (options, final set, probes).",
		Run:  runC11, Quick: 64000, Thorough: 6400000,
		Real: commonReal, Stub: commonStub,
		Tolerances: []string{"leading_slash_capture as in C01", "with auto-OPTIONS enabled a 405 reply lists OPTIONS as well (an OPTIONS request for that target would be answered)"},
		Domain:     []string{"as C01 with methods GET, POST, PURGE, OPTIONS"},
	})
}

func runC11(src sim.Source, o Opts) *Result {
	res := newResult()
	rr := &routingRun{src: src, res: res, f: routingFocus{prop: "C11", tsOptions: true, methods: methodsC11, checkAllow: true}}
	if !rr.build() {
		return res
	}
	if src.Intn("emptyrouter", 4) == 3 && len(rr.pool) > 0 && rr.w.R.Len() == 0 {
		// before anything is registered: a write transaction registers routes, looks requests up through itself (those
		// contexts go back to the pool of the still empty published tree) and is aborted; the empty router then answers
		// requests - no route serves them, whatever the recycled contexts last held
		res.inc("runs_starting_with_requests_on_the_empty_router")
		txn := rr.w.R.Txn(true)
		for k, n := 0, 1+src.Intn("emptytxnroutes", 3); k < n; k++ {
			pat := rr.pool[src.Intn("emptytxnpat", len(rr.pool))]
			if _, err := txn.Handle("GET", pat.Raw, world.Handler(0), world.FoxOpts(0, world.RouteOpt{TS: 1})...); err != nil {
				continue
			}
			host, path := world.Instantiate(src, pat)
			for _, pth := range []string{path, strings.TrimSuffix(path, "/"), path + "/"} {
				if pth == "" {
					continue
				}
				if rt, cc, _ := txn.Lookup(world.NewRW(world.NewConn()), world.NewRequest("GET", host, pth, "", "", nil)); rt != nil {
					cc.Close()
				}
			}
		}
		txn.Abort()
		for i := 0; i < 3 && !res.failed(); i++ {
			// (served straight away: a lookup of the harness' own in between would use - and reset - the recycled context)
			p := world.GenProbe(src, rr.pool, rr.f.methods)
			if p.Path == "*" {
				continue
			}
			res.Checks++
			obs := rr.w.Serve(p, "", "", nil)
			if obs.Panic != nil {
				res.fail("C11/panic", "on the empty router: ServeHTTP %v panicked: %v", p, obs.Panic)
			} else if obs.Kind != model.KNoRoute || obs.Hit.HasRoute || obs.Hit.Pattern != "" || len(obs.Hit.Params) > 0 || obs.Hit.Scope != fox.NoRouteHandler {
				res.fail("C11/context", "on the empty router, after lookups through an aborted transaction: %s %s%s answered by %s, the handler saw route=%v pattern=%q params=%v scope=%d (want the no-route handler without route, pattern or parameters)", p.Method, p.Host, p.Path, obs.Kind, obs.Hit.HasRoute, obs.Hit.Pattern, obs.Hit.Params, obs.Hit.Scope)
			}
		}
	}
	rounds := 2 + src.Intn("rounds", 3)
	var probeKeys []string
	for r := 0; r < rounds && !res.failed(); r++ {
		rr.mutate(2 + src.Intn("mutations", 7))
		if rr.skip {
			res.inc("runs_stopped_setup_write_disagrees_with_map_model")
			break
		}
		if src.Intn("manyverbs", 6) == 5 && len(rr.pool) > 0 {
			// one pattern registered under many verbs with long names (WebDAV/DeltaV style, without the hyphens fox's method check refuses): the Allow value for it, and
			// for '*', runs to well over a hundred bytes
			pi := src.Intn("manyverbspat", len(rr.pool))
			if src.Intn("morethan64verbs", 3) == 2 {
				// ... after 64 other custom verbs (three letters each) registered on a pattern of their own: the verbs that
				// follow are the 69th and later of the router
				pj := src.Intn("fillerverbspat", len(rr.pool))
				for i := 0; i < 64 && !rr.skip; i++ {
					rr.nextTag++
					op := WOp{Kind: "handle", Method: "Q" + string(rune('A'+i/26)) + string(rune('A'+i%26)), Pat: pj, Tag: rr.nextTag}
					want := applyModel(rr.set, rr.cfg, rr.pool, op)
					if out := applyFox(rr.w, rr.w.R, rr.pool, op); !sameOut(out, want) {
						rr.skip = true
					}
				}
				res.inc("rounds_with_more_than_64_verbs")
			}
			for _, verb := range []string{"PROPFIND", "PROPPATCH", "MKCOL", "VERSIONCONTROL", "MKWORKSPACE", "BASELINECONTROL", "MKACTIVITY", "ORDERPATCH", "UNCHECKOUT", "REPORT", "UNLOCK", "LOCK", "PATCH"} /* the last three: names contained in names registered before them */ {
				rr.nextTag++
				op := WOp{Kind: "handle", Method: verb, Pat: pi, Tag: rr.nextTag, Opt: world.RouteOpt{TS: 1 + src.Intn("manyverbsts", 3)}}
				want := applyModel(rr.set, rr.cfg, rr.pool, op)
				if out := applyFox(rr.w, rr.w.R, rr.pool, op); !sameOut(out, want) {
					rr.skip = true
					break
				}
			}
			res.inc("rounds_with_a_pattern_under_thirteen_verbs")
			if rr.skip {
				res.inc("runs_stopped_setup_write_disagrees_with_map_model")
				break
			}
		}
		// a twin router with the same options and routes but fox's built-in special handlers (WithNoMethod /
		// WithAutoOptions without custom handlers): it must give the same status class and the same Allow header
		rr.twin = nil
		if src.Intn("builtintwin", 2) == 1 {
			tcfg := rr.cfg
			tcfg.BuiltinHandlers = true
			if tw, err := world.Build(tcfg); err == nil {
				okAll := true
				for _, r := range rr.set.Routes() {
					ts := 3
					if r.IgnoreTS {
						ts = 1
					} else if r.RedirectTS {
						ts = 2
					}
					if _, err := tw.R.Handle(r.Method, r.Pattern, world.Handler(r.Tag), world.FoxOpts(r.Tag, world.RouteOpt{TS: ts})...); err != nil {
						okAll = false
						break
					}
				}
				if okAll {
					rr.twin = tw
				}
			}
		}
		nprobes := 3 + src.Intn("nprobes", 8)
		for i := 0; i < nprobes && !res.failed(); i++ {
			rr.churnPool()
			p := world.GenProbe(src, rr.pool, rr.f.methods)
			switch src.Intn("pm", 8) {
			case 0:
				p.Method = "OPTIONS"
			case 1:
				p.Method = "HEAD" // a method without routes
			case 2:
				if src.Intn("star", 2) == 1 {
					p.Method, p.Path = "OPTIONS", "*"
				}
			case 3:
				if src.Intn("emptypath", 3) == 2 {
					p.Path = "" // absolute-form request target without a path: one slash short of the root
					res.inc("probes_with_empty_path")
				}
			}
			if p.Host != "" && !strings.ContainsAny(p.Host, ":") && !strings.HasSuffix(p.Host, ".") && src.Intn("nearmisshost", 6) == 0 {
				oh, _ := world.Instantiate(src, rr.pool[src.Intn("op", len(rr.pool))])
				p.Host, _ = hostVariants(src, p.Host, oh)
				res.inc("probes_with_near_miss_host")
			}
			// requests whose escaped path differs from the decoded one: routing (and the Allow scan) works on the escaped form
			rawPath := ""
			if p.Path != "*" && src.Intn("escaped", 4) == 0 {
				segs := strings.Split(p.Path, "/")
				if len(segs) < 2 {
					segs = []string{"", ""}
				}
				if i := 1 + src.Intn("rseg", len(segs)-1); segs[i] != "" {
					segs[i] = sim.Pick(src, "rval", []string{"x%2Fy", "a%2Fb", "a%20b", "%2F"})
					if u, err := url.ParseRequestURI(strings.Join(segs, "/")); err == nil && u.RawPath != "" {
						p.Path, rawPath = u.Path, u.RawPath
						res.inc("probes_with_escaped_path")
					}
				}
			}
			probeKeys = append(probeKeys, fmt.Sprint(p, rawPath))
			rr.checkUnserved(p, rawPath, fmt.Sprintf("round %d", r))
		}
	}
	for _, cc := range rr.held {
		cc.Close()
	}
	res.Nontrivial = res.Stats["answers_with_allow_header"] >= 2
	res.CaseKey = hashStrings(append([]string{rr.cfg.String(), rr.set.Fingerprint()}, probeKeys...)...)
	res.Hash = hashStrings(fmt.Sprint(res.Checks), rr.set.Fingerprint(), fmt.Sprint(rr.history), fmt.Sprint(probeKeys))
	res.Steps = len(rr.history)
	if o.Trace || res.Class != "" {
		rr.describe()
	}
	return res
}

// effective returns the routing result the composition rules are applied to for (method, host, path): the reference
// answer, or fox's own answer when the deviation is a listed C08 finding. ok=false: unexplained deviation (C01/C08's
// verdict, not C11's).
func (rr *routingRun) effective(method, host, decoded, rawPath string) (model.MatchResult, bool) {
	p := world.Probe{Method: method, Host: host, Path: decoded}
	path := decoded // the path routing works on: the escaped form when the request has one
	if rawPath != "" {
		path = rawPath
	}
	mA := rr.set.Match(method, host, path, model.MatchOpts{})
	mB := rr.set.Match(method, host, path, model.MatchOpts{AllowLeadingSlashCapture: true})
	lk := rr.lookupRaw(p, rawPath)
	ans := lookupAnswer{tag: lk.Tag, tsr: lk.TSR, params: world.FmtParams(lk.Params), hasPar: true}
	fromFox := func() model.MatchResult {
		if lk.Tag == -1 {
			return model.MatchResult{}
		}
		return model.MatchResult{Route: rr.findByTag(lk.Tag), Params: lk.Params, TSR: lk.TSR}
	}
	switch {
	case ans.same(mA):
		return mA, true
	case fmtMatch(mA) != fmtMatch(mB):
		rr.res.inc("tolerance_leading_slash_capture")
		return fromFox(), true
	}
	if class, _ := rr.knownTSR(p, path, ans, mA, lk); class != "" {
		rr.res.known("C11/allow-inherits-tsr-detection", fmt.Sprintf("%s %s%s: per-method routing answer %s instead of %s (%s)", method, host, path, lk, fmtMatch(mA), class))
		return fromFox(), !rr.res.failed()
	}
	return model.MatchResult{}, false
}

func (rr *routingRun) checkUnserved(p world.Probe, rawPath, where string) {
	res := rr.res
	matchPath := p.Path
	if rawPath != "" {
		matchPath = rawPath
	}
	cfg := rr.w.ModelCfg()
	res.Checks++
	// expected computes the reference answer. connectCounts=false is the property's reading: a CONNECT route that matches
	// only by ignoring a trailing slash does not serve the path (CONNECT requests never get a trailing-slash action).
	// connectCounts=true is what fox's Allow scan does (known finding C11/allow-lists-connect-through-ignored-slash).
	expected := func(connectCounts bool) (sv model.Served, ok bool) {
		if p.Path == "*" {
			sv = rr.set.Serve(cfg, p.Method, p.Host, p.Path, p.Path, model.MatchOpts{})
		} else {
			eff, ok := rr.effective(p.Method, p.Host, p.Path, rawPath)
			if !ok {
				return sv, false
			}
			first := rr.set.Dispatch(cfg, p.Method, p.Host, matchPath, p.Path, eff, model.MatchOpts{})
			if first.Kind == model.KRoute || first.Kind == model.KRedirect {
				sv = first
			} else {
				// recompute the Allow set from per-method effective answers
				serves := func(mm string) (bool, bool) {
					e, ok := rr.effective(mm, p.Host, p.Path, rawPath)
					if !ok {
						return false, false
					}
					// a CONNECT request is never served through a trailing-slash action (C08), so a CONNECT route that matches
					// only by ignoring the slash does not serve this path
					return e.Route != nil && (!e.TSR || (e.Route.IgnoreTS && (mm != "CONNECT" || connectCounts))), true
				}
				var allow []string
				sv = model.Served{Kind: model.KNoRoute}
				if p.Method == "OPTIONS" && cfg.AutoOptions {
					for _, mm := range rr.set.Methods() {
						s, ok := serves(mm)
						if !ok {
							return sv, false
						}
						if s {
							allow = append(allow, mm)
						}
					}
					if len(allow) > 0 {
						allow = appendUnique(allow, "OPTIONS")
						sv = model.Served{Kind: model.KOptions, Allow: allow}
					}
				} else if cfg.NoMethod {
					for _, mm := range rr.set.Methods() {
						if mm == p.Method {
							continue
						}
						s, ok := serves(mm)
						if !ok {
							return sv, false
						}
						if s {
							allow = append(allow, mm)
						}
					}
					if len(allow) > 0 {
						if cfg.AutoOptions {
							allow = appendUnique(allow, "OPTIONS")
						}
						sv = model.Served{Kind: model.KNoMethod, Allow: allow}
					}
				}
				sort.Strings(sv.Allow)
			}
		}
		return sv, true
	}
	sv, ok := expected(false)
	if !ok {
		res.inc("probes_skipped_routing_deviation_is_c08")
		return
	}
	rr.drawAuthority()
	obs := rr.w.Serve(p, rawPath, "", nil)
	rr.w.URLAuthority = ""
	if obs.Panic != nil {
		res.fail("C11/panic", "%s: ServeHTTP %v panicked: %v", where, p, obs.Panic)
		return
	}
	// the answer given to the previous unserved request is its own: whatever this request did, the header the earlier
	// connection holds (a server writes it out after the handler returned) is still what it was
	if rr.prevConn != nil {
		if now := strings.Join(rr.prevConn.H.Values("Allow"), " | "); now != rr.prevAllow {
			res.fail("C11/allow", "%s: the Allow header of the previous response (%s) was %q and reads %q after this request was answered", where, rr.prevWhat, rr.prevAllow, now)
			return
		}
	}
	rr.prevConn, rr.prevAllow, rr.prevWhat = obs.Conn, strings.Join(obs.Conn.H.Values("Allow"), " | "), fmt.Sprintf("%s %s%s", p.Method, p.Host, p.Path)
	describe := func() string {
		var rs []string
		for _, r := range rr.set.Routes() {
			o := ""
			if r.IgnoreTS {
				o = "(ignore)"
			} else if r.RedirectTS {
				o = "(redirect)"
			}
			rs = append(rs, fmt.Sprintf("%s %s%s", r.Method, r.Pattern, o))
		}
		return fmt.Sprintf("%s: %s %s%s (escaped form %q) with options %s answered by %s (status %d, Allow %v); expected %s (Allow %v); routes: %s", where, p.Method, p.Host, p.Path, rawPath, rr.cfg, obs.Kind, obs.Status, obs.Allow, sv.Kind, sv.Allow, strings.Join(rs, ", "))
	}
	if obs.Kind != sv.Kind || strings.Join(obs.Allow, ",") != strings.Join(sv.Allow, ",") {
		if alt, ok := expected(true); ok && (alt.Kind != sv.Kind || strings.Join(alt.Allow, ",") != strings.Join(sv.Allow, ",")) &&
			obs.Kind == alt.Kind && strings.Join(obs.Allow, ",") == strings.Join(alt.Allow, ",") {
			res.known("C11/allow-lists-connect-through-ignored-slash", describe())
			if res.failed() {
				return
			}
			sv = alt // scope and context are still checked against the answer fox gives
		}
	}
	if sv.Kind == model.KRoute || sv.Kind == model.KRedirect {
		if obs.Kind != sv.Kind {
			res.fail("C11/handler", "%s", describe())
		}
		if sv.Kind == model.KRedirect && (obs.Hit.HasRoute || obs.Hit.Pattern != "" || len(obs.Hit.Params) > 0 || obs.Hit.Scope != fox.RedirectHandler) {
			res.fail("C11/context", "%s: redirect handler saw route=%v pattern=%q params=%v scope=%d", describe(), obs.Hit.HasRoute, obs.Hit.Pattern, obs.Hit.Params, obs.Hit.Scope)
		}
		res.inc("probes_served_by_route_or_redirect")
		return
	}
	res.inc("answered_by_" + sv.Kind.String())
	if obs.Kind != sv.Kind {
		res.fail("C11/handler", "%s", describe())
		return
	}
	if strings.Join(obs.Allow, ",") != strings.Join(sv.Allow, ",") {
		res.fail("C11/allow", "%s", describe())
		return
	}
	if len(sv.Allow) > 0 {
		res.inc("answers_with_allow_header")
	}
	if rr.twin != nil {
		tobs := rr.twin.Serve(p, rawPath, "", nil)
		wantStatus := map[model.Kind]int{model.KNoRoute: 404, model.KNoMethod: 405, model.KOptions: 200}[sv.Kind]
		res.inc("answers_compared_with_builtin_handlers")
		if tobs.Panic != nil || tobs.Status != wantStatus || strings.Join(tobs.Allow, ",") != strings.Join(obs.Allow, ",") {
			res.fail("C11/builtin-handlers", "%s; the same router with fox's built-in handlers answers status %d Allow %v (panic %v), expected status %d and the same Allow header", describe(), tobs.Status, tobs.Allow, tobs.Panic, wantStatus)
			return
		}
	}
	wantScope := map[model.Kind]fox.HandlerScope{model.KNoRoute: fox.NoRouteHandler, model.KNoMethod: fox.NoMethodHandler, model.KOptions: fox.OptionsHandler}[sv.Kind]
	if obs.Hit.HasRoute || obs.Hit.Pattern != "" || len(obs.Hit.Params) > 0 || obs.Hit.Scope != wantScope {
		res.fail("C11/context", "%s: the handler saw route=%v pattern=%q params=%v scope=%d (want scope %d)", describe(), obs.Hit.HasRoute, obs.Hit.Pattern, obs.Hit.Params, obs.Hit.Scope, wantScope)
	}
}

func appendUnique(xs []string, v string) []string {
	for _, x := range xs {
		if x == v {
			return xs
		}
	}
	return append(xs, v)
}

var _ = sim.Bool
