package props

import (
	"errors"
	"fmt"
	"net/http"
	"runtime"

	"github.com/tigerwill90/fox"

	"verif/harness/model"
	"verif/harness/sim"
	"verif/harness/world"
)

// methods3: two common verbs (fixed root slots) and two custom ones (slots appended and removed with their last route)
var methods3 = []string{"GET", "POST", "UNPUSH", "PUSH"} // PUSH: as long as POST and starting with the same byte; UNPUSH: contains PUSH

func init() {
	register(&Prop{
		ID: "C02", Level: "exploration",
		Rule: "one case = a generated history of Handle/HandleRoute/Update/UpdateRoute/Delete/Truncate (direct, in unmanaged and managed transactions ended by commit/abort/error/panic, ~12% invalid operations) over a pattern pool sharing prefixes, wildcards and hostnames across GET/POST/UNPUSH/PUSH; every call's result and a full observation sweep (Len, Has, Route, Iter.All/Methods/Prefix/Routes) are compared with a sequential map after every step; on three drawn requests Lookup and Reverse of the same reader (router, open transaction) must select the same route, and the parameters Lookup reports, substituted into the selected pattern, must spell the request. Non-trivial: the history contains an effective delete or truncate and at least 3 effective inserts; distinct = hash of the operation sequence.",
		Run:  runC02, Quick: 48000, Thorough: 9600000,
		Real: commonReal, Stub: commonStub,
		Domain: []string{"patterns: <= 6 segments over {a,b,ab,ba,c} with full/mid-segment params and catch-alls, hostnames of <= 3 labels", "methods GET, POST and the custom verbs UNPUSH, PUSH"},
	})
}

// step kinds of a sequential history
type seqStep struct {
	Direct *WOp
	Txn    *TxnProg
}

// TxnProg is a transaction program.
type TxnProg struct {
	Managed bool
	Ops     []WOp
	End     string // commit abort error panic
	PanicV  int    // panic ending: which value (injectedPanicValue)
	EndAt   int    // error/panic/abort: after this many operations
}

func (t TxnProg) String() string {
	if t.End == "panic" {
		return fmt.Sprintf("txn(managed=%v ops=%v end=panic(%T)@%d)", t.Managed, t.Ops, injectedPanicValue(t.PanicV, 0), t.EndAt)
	}
	return fmt.Sprintf("txn(managed=%v ops=%v end=%s@%d)", t.Managed, t.Ops, t.End, t.EndAt)
}

var errInjected = errors.New("injected error from transaction function")

type injectedPanic struct{ at int }

// injectedPanicValue is what a transaction program panics with: the harness' own type, or one of the error values
// the library itself panics with or treats specially elsewhere - an ending is an ending whatever the value.
func injectedPanicValue(kind, at int) any {
	switch kind {
	case 1:
		return fox.ErrSettledTxn
	case 2:
		return fox.ErrReadOnlyTxn
	case 3:
		return http.ErrAbortHandler
	}
	return injectedPanic{at}
}

// isInjectedPanic: is p the value this program was told to panic with?
func isInjectedPanic(p any, t *TxnProg) bool {
	if t.End != "panic" {
		return false
	}
	if _, ok := p.(injectedPanic); ok {
		return t.PanicV == 0 || t.PanicV > 3
	}
	return t.PanicV >= 1 && t.PanicV <= 3 && p == injectedPanicValue(t.PanicV, 0)
}

func genTxnProg(s sim.Source, pool []*model.Pattern, methods []string, nextTag *int, maxOps, badRate int) *TxnProg {
	return genTxnProgHint(s, pool, methods, nextTag, maxOps, badRate, nil, world.Cfg{})
}

// genTxnProgHint draws a transaction program; when the current model set is given, operations are biased towards
// effective ones (tracked on a private copy) and towards the tree branch of the previous operation.
func genTxnProgHint(s sim.Source, pool []*model.Pattern, methods []string, nextTag *int, maxOps, badRate int, set *model.Set, cfg world.Cfg) *TxnProg {
	t := &TxnProg{Managed: sim.Bool(s, "managed")}
	n := 1 + s.Intn("txnops", maxOps)
	h := genHint{last: -1}
	if set != nil && s.Intn("biasedtxn", 4) != 0 {
		h.set = set.Clone()
	}
	for i := 0; i < n; i++ {
		*nextTag++
		op := genWOpHint(s, pool, methods, *nextTag, true, badRate, h)
		t.Ops = append(t.Ops, op)
		if h.set != nil {
			applyModel(h.set, cfg, pool, op)
		}
		if op.Kind != "truncate" {
			h.last, h.lastMethod = op.Pat, op.Method
		}
	}
	switch e := s.Intn("end", 10); {
	case e < 6:
		t.End = "commit"
		t.EndAt = n
	case e < 8:
		t.End = "abort"
		t.EndAt = s.Intn("endat", n+1)
	case e < 9:
		t.End = "error"
		t.EndAt = s.Intn("endat", n+1)
	default:
		t.End = "panic"
		t.EndAt = s.Intn("endat", n+1)
	}
	t.PanicV = s.Intn("panicvalue", 4)
	if !t.Managed && (t.End == "error") {
		t.End = "abort"
	}
	return t
}

// runTxn executes a transaction program on the real router. after(i, txn) is called after operation i (and with
// i = -1 right after the transaction is opened). It returns the results of the executed operations and whether the
// transaction committed. A panic other than the injected one is re-raised.
func runTxn(w *world.World, pool []*model.Pattern, t *TxnProg, each func(i int, txn *fox.Txn, op *WOp, out WOut)) (committed bool) {
	body := func(txn *fox.Txn) error {
		each(-1, txn, nil, WOut{})
		for i := range t.Ops {
			if i == t.EndAt {
				switch t.End {
				case "error":
					return errInjected
				case "panic":
					panic(injectedPanicValue(t.PanicV, i))
				case "goexit":
					runtime.Goexit() // the calling goroutine ends inside the transaction (only used on simulator tasks)
				case "abort":
					return errInjected // unmanaged: leave; managed: abort via error (explicit abort below for unmanaged)
				case "selfabort":
					txn.Abort() // the function settles the managed transaction itself, then reports an error
					return errInjected
				}
			}
			out := applyFox(w, txn, pool, t.Ops[i])
			each(i, txn, &t.Ops[i], out)
		}
		if t.EndAt >= len(t.Ops) && t.End != "commit" {
			switch t.End {
			case "selfabort":
				txn.Abort()
				return errInjected
			case "panic":
				panic(injectedPanicValue(t.PanicV, len(t.Ops)))
			case "goexit":
				runtime.Goexit()
			default:
				return errInjected
			}
		}
		return nil
	}
	if t.Managed {
		func() {
			defer func() {
				if p := recover(); p != nil {
					if !isInjectedPanic(p, t) {
						panic(p)
					}
				}
			}()
			err := w.R.Updates(body)
			committed = err == nil
		}()
		return committed
	}
	txn := w.R.Txn(true)
	func() {
		defer txn.Abort()
		defer func() {
			if p := recover(); p != nil {
				if !isInjectedPanic(p, t) {
					panic(p)
				}
			}
		}()
		if err := body(txn); err == nil {
			txn.Commit()
			committed = true
		} else if t.End == "abort" {
			txn.Abort()
		}
	}()
	return committed
}

func runC02(src sim.Source, o Opts) *Result {
	res := newResult()
	cfg := world.DrawCfg(src)
	if src.Intn("limits", 5) == 4 {
		// configured limits at the sizes the generated patterns actually have (names are 2 bytes, 3-4 in odd pools)
		cfg.MaxParams = sim.Pick(src, "maxparams", []int{0, 1, 2, 3})
		cfg.MaxKeyBytes = sim.Pick(src, "maxkeybytes", []int{0, 2, 3, 4})
	}
	pc := world.PoolCfg{Size: 3 + src.Intn("poolsize", 10), MaxSegs: 1 + src.Intn("maxsegs", 5), Hosts: src.Intn("hosts", 3) == 2,
		WildHeavy: sim.Bool(src, "wildheavy"), TSlash: src.Intn("tslash", 4), Fanout: src.Intn("fanout", 12) == 11, Deep: src.Intn("deep", 12) == 11, Odd: src.Intn("oddbytes", 5) == 4, Ladder: src.Intn("ladder", 10) == 9, Siblings: src.Intn("siblings", 6) == 5}
	pool := world.GenPool(src, pc)
	if len(pool) == 0 {
		return res
	}
	w, err := world.Build(cfg)
	if err != nil {
		res.Trouble = "build: " + err.Error()
		return res
	}
	prefixes := prefixesOf(src, pool)
	probes := genProbes(src, pool, methods3, 3)
	committed := model.NewSet()
	nextTag := 0
	nsteps := 4 + src.Intn("nsteps", 24)
	var history []string
	effIns, effDel := 0, 0
	if pc.Fanout || pc.Deep || pc.Ladder {
		msg, ok := prefillFanout(src, w, committed, cfg, pool, &nextTag)
		if !ok {
			res.fail("C02/result", "%s", msg)
			return res
		}
		history = append(history, msg)
		if pc.Fanout {
			res.inc("runs_with_fanout_above_50")
		}
		if pc.Deep {
			res.inc("runs_on_tree_deeper_than_25")
		}
	}

	check := func(where string, rd world.Reader, set *model.Set) bool {
		res.Checks++
		// Txn.Iter() on an open write transaction resets its copy-on-write cache: iterate it only now and then
		withIter := true
		if _, isTxn := rd.(*fox.Txn); isTxn {
			withIter = src.Intn("txniter", 4) == 3
		}
		got := world.MapSweepOpt(rd, methods3, pool, prefixes, withIter)
		want := world.ModelMapSweepOpt(set, methods3, pool, prefixes, withIter)
		if d := world.DiffLines(got, want); d != "" {
			res.fail("C02/sweep", "%s: observation differs from the sequential map: %s", where, d)
			return false
		}
		if d := entryPointsAgree(rd, probes); d != "" {
			res.fail("C02/entry-points-disagree", "%s: %s", where, d)
			return false
		}
		if d := lookupAgreesWithSet(rd, probes, set); d != "" {
			res.fail("C02/lookup-wrong", "%s: %s", where, d)
			return false
		}
		return true
	}

	for step := 0; step < nsteps && !res.failed(); step++ {
		if src.Intn("txnstep", 4) == 0 {
			t := genTxnProgHint(src, pool, methods3, &nextTag, 6, 12, committed, cfg)
			history = append(history, t.String())
			private := committed.Clone()
			before := committed
			func() {
				defer func() {
					if p := recover(); p != nil {
						res.fail("C02/panic", "transaction %v panicked: %v", t, p)
					}
				}()
				ok := runTxn(w, pool, t, func(i int, txn *fox.Txn, op *WOp, out WOut) {
					if res.failed() {
						return
					}
					if op != nil {
						pre := private.Fingerprint()
						want := applyModel(private, cfg, pool, *op)
						if !sameOut(out, want) {
							res.fail("C02/result", "in %v: %v returned %v, the sequential map says %v", t, *op, out, want)
							return
						}
						if want.Class != "ok" && private.Fingerprint() != pre {
							res.Trouble = "model changed on failed op"
						}
						if want.Class == "ok" {
							switch op.Kind {
							case "handle", "handleroute":
								effIns++
							case "delete", "truncate":
								effDel++
							}
						}
					}
					// the transaction reads its own writes; the router still shows the committed state
					check(fmt.Sprintf("inside %v after op %d (txn view)", t, i), txn, private)
					check(fmt.Sprintf("inside %v after op %d (router view)", t, i), w.R, before)
				})
				wantCommit := t.End == "commit"
				if ok != wantCommit {
					res.fail("C02/txn-end", "%v: committed=%v, expected %v", t, ok, wantCommit)
				}
				if ok {
					committed = private
				}
			}()
			res.inc("txn_" + t.End)
		} else {
			nextTag++
			hint := genHint{last: -1}
			if src.Intn("biasedop", 4) != 0 {
				hint.set = committed
			}
			op := genWOpHint(src, pool, methods3, nextTag, false, 12, hint)
			history = append(history, op.String())
			pre := committed.Fingerprint()
			want := applyModel(committed, cfg, pool, op)
			var out WOut
			func() {
				defer func() {
					if p := recover(); p != nil {
						res.fail("C02/panic", "%v panicked: %v", op, p)
					}
				}()
				out = applyFox(w, w.R, pool, op)
			}()
			if res.failed() {
				break
			}
			if !sameOut(out, want) {
				res.fail("C02/result", "%v returned %v, the sequential map says %v (history %v)", op, out, want, history)
				break
			}
			if want.Class != "ok" {
				res.inc("failed_op_" + want.Class)
				if committed.Fingerprint() != pre {
					res.Trouble = "model changed on failed op"
				}
			} else {
				switch op.Kind {
				case "handle", "handleroute":
					effIns++
				case "delete":
					effDel++
				}
			}
		}
		if !res.failed() {
			check(fmt.Sprintf("after step %d of %v", step, history), w.R, committed)
		}
	}
	res.Nontrivial = effIns >= 3 && effDel >= 1
	res.CaseKey = hashStrings(append([]string{cfg.String()}, history...)...)
	res.Hash = hashStrings(fmt.Sprint(res.Checks), committed.Fingerprint(), fmt.Sprint(history))
	res.Steps = len(history)
	if o.Trace || res.Class != "" {
		res.Case["config"] = cfg.String()
		res.Case["pool"] = poolStrings(pool)
		res.Case["history"] = history
		res.Case["final_set"] = committed.Fingerprint()
	}
	return res
}
