package props

import (
	"fmt"
	"net"
	"strings"

	"github.com/tigerwill90/fox"

	"verif/harness/model"
	"verif/harness/sim"
	"verif/harness/world"
)

func init() {
	register(&Prop{
		ID: "C13", Level: "exploration",
		Rule: "one case = a router with 0-5 global middleware, each registered with WithMiddleware (all handlers) or WithMiddlewareFor with a drawn scope mask (an empty one now and then: wraps nothing) (sub-batch: DefaultOptions prepended), 2-5 routes with 0-3 route-specific middleware each, and all five handler kinds reachable (route, no-route, no-method, redirect, options), plus two routes that ignore trailing slashes reached directly and with the slash toggled. Every middleware appends its identifier to a per-request trace on entry. Sequential clauses: for each handler kind the trace equals the global middleware whose scope includes the kind, in registration order, followed for routes by the route-specific ones, each exactly once; Update replaces the route-specific part; Route.Handle runs the bare handler; Route.HandleMiddleware runs only the route-specific chain. Concurrent clause: 2-3 tasks create routes through the public Router.NewRoute (then HandleRoute/UpdateRoute) with different route-specific middleware under the seeded scheduler (yield point between applying the options and composing the chain), mixed with tasks that go through Handle/Update; afterwards every route's trace must be its own; in HB mode the same schedules run under the race detector. One time in three the route objects are also registered (HandleRoute) or swapped in (UpdateRoute) on a second router with other global middleware; the first router's chains must stay as they were. Non-trivial: at least 3 global middleware or a context switch inside NewRoute; distinct = hash of (configuration, programs, schedule).",
		Run:  runC13, HBRun: runC13,
		Quick: 40000, Thorough: 8000000, QuickHB: 6000, ThoroughHB: 800000,
		Real: []string{"fox.New option processing, applyMiddleware/applyRouteMiddleware, Router.NewRoute, route chains, ServeHTTP dispatch"},
		Stub: commonStub,
	})
}

// countingResolver counts how often the client IP is asked for.
type countingResolver struct{ n *int }

func (r countingResolver) ClientIP(fox.Context) (*net.IPAddr, error) {
	*r.n++
	return &net.IPAddr{IP: net.IPv4(192, 0, 2, 9)}, nil
}

type gmw struct {
	ID    int
	Scope fox.HandlerScope
	All   bool
}

func traceMW(id int) fox.MiddlewareFunc { return world.RouteMW(id) }

func kindScope(k model.Kind) fox.HandlerScope {
	switch k {
	case model.KRoute:
		return fox.RouteHandler
	case model.KNoRoute:
		return fox.NoRouteHandler
	case model.KNoMethod:
		return fox.NoMethodHandler
	case model.KRedirect:
		return fox.RedirectHandler
	default:
		return fox.OptionsHandler
	}
}

func expectedTrace(glob []gmw, k model.Kind, routeMW []int) []int {
	var out []int
	for _, g := range glob {
		if g.Scope&kindScope(k) != 0 {
			out = append(out, g.ID)
		}
	}
	if k == model.KRoute {
		out = append(out, routeMW...)
	}
	return out
}

func runC13(src sim.Source, o Opts) *Result {
	res := newResult()
	res.Case["prop"] = "C13"
	// configuration
	ng := src.Intn("nglobal", 6)
	var glob []gmw
	var opts []fox.GlobalOption
	useDefault := src.Intn("defaultoptions", 6) == 5
	for i := 0; i < ng; i++ {
		g := gmw{ID: 100 + i}
		if src.Intn("scoped", 2) == 1 {
			mask := fox.HandlerScope(0)
			for _, sc := range []fox.HandlerScope{fox.RouteHandler, fox.NoRouteHandler, fox.NoMethodHandler, fox.RedirectHandler, fox.OptionsHandler} {
				if src.Intn("inscope", 2) == 1 {
					mask |= sc
				}
			}
			if mask == 0 && src.Intn("emptymask", 3) != 2 {
				mask = fox.RouteHandler // (an empty mask stays empty one time in three: such a middleware wraps nothing)
			}
			g.Scope = mask
			opts = append(opts, fox.WithMiddlewareFor(mask, traceMW(g.ID)))
		} else {
			g.Scope, g.All = fox.AllHandlers, true
			opts = append(opts, fox.WithMiddleware(traceMW(g.ID)))
		}
		glob = append(glob, g)
	}
	// DefaultOptions registers a Logger for every handler kind (and a Recovery for routes): they are not traced like the
	// harness' middleware, but the Logger asks the client-IP resolver once per request it wraps - a counting resolver
	// shows whether it ran
	loggerRuns := 0
	if useDefault {
		opts = append(opts, fox.DefaultOptions(), fox.WithClientIPResolver(countingResolver{&loggerRuns}))
		res.inc("config_default_options")
	}
	// trailing-slash redirection: router-wide, or switched on by the routes themselves (global setting off or "ignore")
	globalTS := sim.Pick(src, "globalts", []int{2, 0, 1})
	routeTS := 0
	if globalTS != 2 {
		routeTS = 2
	}
	// 405 handling and automatic OPTIONS replies are each switched off one time in four: a request whose method has no
	// route then ends in the no-route handler (behind the middleware scoped to THAT handler), an OPTIONS request in the
	// no-method handler or the no-route handler
	cfg := world.Cfg{NoMethod: src.Intn("with405", 4) != 3, AutoOptions: src.Intn("withautooptions", 4) != 3, GlobalTS: globalTS, ExtrasFirst: sim.Bool(src, "mwoptionsfirst")}
	if useDefault {
		cfg.AutoOptions = true // DefaultOptions() switches automatic OPTIONS replies on
	}
	kNoMethod := model.KNoMethod
	if !cfg.NoMethod {
		kNoMethod = model.KNoRoute
		res.inc("config_405_off")
	}
	kOptions := model.KOptions
	if !cfg.AutoOptions {
		kOptions = kNoMethod
		res.inc("config_auto_options_off")
	}
	if cfg.ExtrasFirst {
		res.inc("config_middleware_options_before_handler_options")
	}
	if ng == 0 && !useDefault && src.Intn("nospy", 2) == 1 {
		cfg.NoRedirectSpy = true // a router without a single global middleware
		res.inc("config_no_global_middleware_at_all")
	} else if src.Intn("nospy2", 3) == 2 {
		// the harness' own observer of the built-in redirect handler is itself a global middleware scoped to it, and the
		// last one registered: without it the drawn list ends as drawn (the redirect is then recognised by its status)
		cfg.NoRedirectSpy = true
		res.inc("config_without_redirect_observer")
	}
	w, err := world.Build(cfg, opts...)
	if err != nil {
		res.Trouble = err.Error()
		return res
	}
	res.Case["global_middleware"] = fmt.Sprint(glob)
	res.Case["trailing_slash"] = fmt.Sprintf("global=%d per-route=%d", globalTS, routeTS)
	res.inc(fmt.Sprintf("config_global_ts_%d", globalTS))

	type rdef struct {
		Method  string
		Pattern string
		MW      []int
		Tag     int
		Via     string // handle | newroute
	}
	nr := 2 + src.Intn("nroutes", 4)
	var routes []rdef
	nextMW := 200
	// one option VALUE reused as the first middleware option of every route (3 or 5 middleware in it): what a route
	// appends afterwards must never land in memory shared with the other routes built from the same value
	var sharedIDs []int
	var shared fox.RouteOption
	if src.Intn("sharedoption", 2) == 1 {
		var ms []fox.MiddlewareFunc
		for j, n := 0, sim.Pick(src, "nshared", []int{3, 5}); j < n; j++ {
			sharedIDs = append(sharedIDs, 280+j)
			ms = append(ms, traceMW(280+j))
		}
		shared = fox.WithMiddleware(ms...)
		res.inc("config_shared_route_option")
	}
	for i := 0; i < nr; i++ {
		r := rdef{Method: "GET", Pattern: fmt.Sprintf("/r%d/{x}", i), Tag: i + 1, Via: sim.Pick(src, "via", []string{"newroute", "newroute", "handle"})}
		r.MW = append(r.MW, sharedIDs...)
		for j, n := 0, src.Intn("nroutemw", 4); j < n; j++ {
			nextMW++
			r.MW = append(r.MW, nextMW)
		}
		routes = append(routes, r)
	}
	// concurrent creation
	ntasks := 2 + src.Intn("ntasks", 2)
	s := sim.NewSched(src)
	s.KeepTrace = o.Trace
	drawPolicy(src, s)
	s.Disabled[sim.PtRouteOpts] = false
	errs := make([]string, ntasks)
	for t := 0; t < ntasks; t++ {
		t := t
		s.Go(fmt.Sprintf("creator%d", t), func(*sim.Task) {
			for i, r := range routes {
				if i%ntasks != t {
					continue
				}
				ropts := world.FoxOpts(r.Tag, world.RouteOpt{TS: routeTS})
				if shared != nil {
					ropts = append(ropts, shared)
				}
				for _, id := range r.MW[len(sharedIDs):] {
					ropts = append(ropts, fox.WithMiddleware(traceMW(id)))
				}
				if r.Via == "handle" {
					if _, err := w.R.Handle(r.Method, r.Pattern, world.Handler(r.Tag), ropts...); err != nil {
						errs[t] = err.Error()
					}
					continue
				}
				rt, err := w.R.NewRoute(r.Pattern, world.Handler(r.Tag), ropts...)
				if err != nil {
					errs[t] = err.Error()
					continue
				}
				s.Yield(sim.PtUser)
				if err := w.R.HandleRoute(r.Method, rt); err != nil {
					errs[t] = err.Error()
				}
			}
		})
	}
	out := s.Run()
	res.Leaked = s.Leaked()
	res.Steps = s.Steps
	res.Hash = s.Hash()
	res.add("context_switches", s.Switches)
	res.add("park_route_opts", s.PointParks[sim.PtRouteOpts])
	var rd []string
	for _, r := range routes {
		rd = append(rd, fmt.Sprintf("%s %s mw=%v via %s", r.Method, r.Pattern, r.MW, r.Via))
	}
	res.Case["routes"] = rd
	if out.Kind != sim.Done {
		if out.Kind == sim.Deadlock {
			res.fail("C13/deadlock", "%s", out.Detail)
		} else if out.Kind == sim.Stalled {
			res.Stack = out.Stack
			res.fail("C13/blocked", "task %s blocked in %s", out.Task.Name, out.State)
		} else {
			res.Trouble = fmt.Sprintf("scheduler: %s %s", out.Kind, out.Detail)
		}
		return res
	}
	for _, t := range s.Tasks {
		if t.Panic != nil {
			res.Stack = t.PanicStack
			res.fail("C13/panic", "task %s panicked: %v", t.Name, t.Panic)
			return res
		}
	}
	for _, e := range errs {
		if e != "" {
			res.Trouble = "route creation failed: " + e
			return res
		}
	}
	// an extra route with redirect enabled for the redirect handler kind (global redirect is on)
	check := func(what string, p world.Probe, wantKind model.Kind, routeMW []int) bool {
		res.Checks++
		before := loggerRuns
		obs := w.Serve(p, "", "", nil)
		if useDefault && loggerRuns-before != 1 {
			res.fail("C13/trace", "%s: %s %s (%s handler): the Logger registered by DefaultOptions for all handler kinds ran %d times, expected once", what, p.Method, p.Path, wantKind, loggerRuns-before)
			return false
		}
		if wantKind == model.KRedirect && cfg.NoRedirectSpy {
			if obs.Status != 301 || obs.Kind != -1 {
				res.fail("C13/kind", "%s: %s %s answered with status %d by %s, expected the redirect handler (301)", what, p.Method, p.Path, obs.Status, obs.Kind)
				return false
			}
		} else if obs.Kind != wantKind {
			res.fail("C13/kind", "%s: %s %s answered by %s, expected %s", what, p.Method, p.Path, obs.Kind, wantKind)
			return false
		}
		want := expectedTrace(glob, wantKind, routeMW)
		if fmt.Sprint(obs.Log.MW) != fmt.Sprint(want) {
			res.fail("C13/trace", "%s: %s %s (%s handler) ran middleware %v, expected %v (global %v, route-specific %v)", what, p.Method, p.Path, wantKind, obs.Log.MW, want, glob, routeMW)
			return false
		}
		return true
	}
	for _, r := range routes {
		if !check("after concurrent creation", world.Probe{Method: "GET", Path: strings.Replace(r.Pattern, "{x}", "v", 1)}, model.KRoute, r.MW) {
			return res
		}
	}
	// special handler kinds
	if !check("no route", world.Probe{Method: "GET", Path: "/nothing/here"}, model.KNoRoute, nil) ||
		!check("no route (OPTIONS request for a path no method serves, automatic replies on)", world.Probe{Method: "OPTIONS", Path: "/nothing/here"}, model.KNoRoute, nil) ||
		!check("no route (method without routes, 405 on)", world.Probe{Method: "PURGE", Path: "/nothing/here"}, model.KNoRoute, nil) ||
		!check("no method", world.Probe{Method: "POST", Path: "/r0/v"}, kNoMethod, nil) ||
		!check("options", world.Probe{Method: "OPTIONS", Path: "/r0/v"}, kOptions, nil) ||
		!check("redirect", world.Probe{Method: "GET", Path: "/r0/v/"}, model.KRedirect, nil) {
		return res
	}
	// a route that ignores trailing slashes, reached with the slash toggled (its own dispatch branch in ServeHTTP): same
	// chain as a direct match
	{
		igMW := []int{296, 297}[:src.Intn("nigmw", 3)]
		for _, def := range []struct{ pattern, direct, toggled string }{{"/ig/{x}", "/ig/v", "/ig/v/"}, {"/igs/{x}/", "/igs/v/", "/igs/v"}} {
			if _, err := w.R.Handle("GET", def.pattern, world.Handler(90), world.FoxOpts(90, world.RouteOpt{MW: igMW, TS: 1})...); err != nil {
				res.Trouble = "ignore-ts route: " + err.Error()
				return res
			}
			if !check("ignore-ts route, direct", world.Probe{Method: "GET", Path: def.direct}, model.KRoute, igMW) ||
				!check("ignore-ts route, slash toggled", world.Probe{Method: "GET", Path: def.toggled}, model.KRoute, igMW) {
				return res
			}
		}
	}
	// Route.Handle: bare; Route.HandleMiddleware: route-specific only
	r0 := routes[src.Intn("pickroute", len(routes))]
	{
		log := &world.ReqLog{}
		req := world.NewRequest("GET", "", strings.Replace(r0.Pattern, "{x}", "v", 1), "", "", log)
		rt, cc, _ := w.R.Lookup(world.NewRW(world.NewConn()), req)
		if rt == nil {
			res.fail("C13/lookup", "route %s not found by Lookup", r0.Pattern)
			return res
		}
		rt.Handle(cc)
		if len(log.MW) != 0 || len(log.Hits) != 1 {
			res.fail("C13/route-handle", "Route.Handle of %s ran middleware %v and %d handler(s); expected the bare handler", r0.Pattern, log.MW, len(log.Hits))
			return res
		}
		log.MW, log.Hits = nil, nil
		rt.HandleMiddleware(cc)
		if fmt.Sprint(log.MW) != fmt.Sprint(r0.MW) || len(log.Hits) != 1 {
			res.fail("C13/route-handlemiddleware", "Route.HandleMiddleware of %s ran middleware %v, expected the route-specific chain %v", r0.Pattern, log.MW, r0.MW)
			return res
		}
		// ... and nothing else: a panic of the handler reaches the caller as it is (the router-wide Recovery of
		// DefaultOptions, like any other global middleware, is not part of that chain), nothing is written
		marker := &struct{ x int }{13}
		log.MW, log.Hits = nil, nil
		log.Inner = func(fox.Context, *world.Hit) { panic(marker) }
		var got any
		func() {
			defer func() { got = recover() }()
			rt.HandleMiddleware(cc)
		}()
		log.Inner = nil
		if got != any(marker) {
			res.fail("C13/route-handlemiddleware", "Route.HandleMiddleware of %s: the handler's panic came out as %v (a middleware outside the route-specific chain %v intercepted it)", r0.Pattern, got, r0.MW)
			return res
		}
		cc.Close()
		res.Checks += 3
	}
	// a second (and third) router built from the very same option values: options configure the router they are applied
	// to and carry nothing over from one application to the next
	if !useDefault && src.Intn("samevalues", 3) == 2 {
		res.inc("routers_built_again_from_the_same_option_values")
		for k := 2; k <= 3 && !res.failed(); k++ {
			w2, err := world.Build(cfg, opts...)
			if err != nil {
				res.fail("C13/trace", "router #%d built from the same option values: %v", k, err)
				break
			}
			r1 := routes[0]
			if _, err := w2.R.Handle(r1.Method, r1.Pattern, world.Handler(r1.Tag), world.FoxOpts(r1.Tag, world.RouteOpt{TS: routeTS})...); err != nil {
				res.Trouble = "second router: " + err.Error()
				return res
			}
			for _, q := range []struct {
				p    world.Probe
				kind model.Kind
			}{{world.Probe{Method: "GET", Path: strings.Replace(r1.Pattern, "{x}", "v", 1)}, model.KRoute}, {world.Probe{Method: "GET", Path: "/nothing/here"}, model.KNoRoute},
				{world.Probe{Method: "POST", Path: strings.Replace(r1.Pattern, "{x}", "v", 1)}, kNoMethod}, {world.Probe{Method: "OPTIONS", Path: strings.Replace(r1.Pattern, "{x}", "v", 1)}, kOptions}} {
				res.Checks++
				obs := w2.Serve(q.p, "", "", nil)
				want := expectedTrace(glob, q.kind, nil)
				if obs.Kind != q.kind || fmt.Sprint(obs.Log.MW) != fmt.Sprint(want) {
					res.fail("C13/trace", "router #%d built from the same option values: %s %s answered by %s with middleware %v, expected %s with %v (global %v)", k, q.p.Method, q.p.Path, obs.Kind, obs.Log.MW, q.kind, want, glob)
					break
				}
			}
		}
		if res.failed() {
			return res
		}
	}
	// the very same *Route object registered (or swapped in by UpdateRoute) on another router that has other global
	// middleware: creating a route THERE never changes the chain the route runs with HERE (what the other router does
	// with a foreign route is not judged)
	if src.Intn("foreignrouter", 3) == 2 {
		res.inc("route_object_registered_on_a_second_router")
		other, err := world.Build(world.Cfg{NoMethod: cfg.NoMethod, AutoOptions: cfg.AutoOptions, GlobalTS: globalTS, NoRedirectSpy: true}, fox.WithMiddleware(traceMW(150)), fox.WithMiddlewareFor(fox.RouteHandler, traceMW(151)))
		if err != nil {
			res.Trouble = err.Error()
			return res
		}
		for i, r := range routes {
			rt := w.R.Route(r.Method, r.Pattern)
			if rt == nil {
				res.fail("C13/lookup", "route %s not found by Route", r.Pattern)
				return res
			}
			var err error
			if i%2 == 0 {
				err = other.R.HandleRoute(r.Method, rt)
			} else {
				if _, err = other.R.Handle(r.Method, r.Pattern, world.Handler(99)); err == nil {
					err = other.R.UpdateRoute(r.Method, rt)
				}
			}
			if err != nil {
				res.Trouble = "second router: " + err.Error()
				return res
			}
			other.Serve(world.Probe{Method: "GET", Path: strings.Replace(r.Pattern, "{x}", "v", 1)}, "", "", nil)
		}
		for _, r := range routes {
			if !check("after the same route object was registered on another router", world.Probe{Method: "GET", Path: strings.Replace(r.Pattern, "{x}", "v", 1)}, model.KRoute, r.MW) {
				return res
			}
		}
	}
	// Update replaces the route-specific middleware
	{
		nextMW++
		newMW := []int{nextMW}
		if src.Intn("updatenone", 2) == 1 {
			newMW = nil
		}
		if _, err := w.R.Update(r0.Method, r0.Pattern, world.Handler(r0.Tag), world.FoxOpts(r0.Tag, world.RouteOpt{MW: newMW, TS: routeTS})...); err != nil {
			res.Trouble = "update failed: " + err.Error()
			return res
		}
		if !check("after Update", world.Probe{Method: "GET", Path: strings.Replace(r0.Pattern, "{x}", "v", 1)}, model.KRoute, newMW) {
			return res
		}
		// the other routes are unaffected
		for _, r := range routes {
			if r.Pattern != r0.Pattern {
				if !check("other route after Update of "+r0.Pattern, world.Probe{Method: "GET", Path: strings.Replace(r.Pattern, "{x}", "v", 1)}, model.KRoute, r.MW) {
					return res
				}
			}
		}
	}
	res.Nontrivial = ng >= 3 || s.PointParks[sim.PtRouteOpts] > 0
	res.CaseKey = sim.Mix(s.SchedHash, hashStrings(fmt.Sprint(glob), fmt.Sprint(rd), fmt.Sprint(useDefault)))
	return res
}
