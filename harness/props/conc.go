package props

import (
	"errors"
	"fmt"
	"runtime"
	"sort"
	"strings"
	"time"

	"github.com/anishathalye/porcupine"
	"github.com/tigerwill90/fox"

	"verif/harness/model"
	"verif/harness/sim"
	"verif/harness/world"
)

// ---- concurrent world: a few keys that share tree nodes ----------------------------------------------------------

const maxKeys = 8

type ckey struct {
	Method string
	Pat    *model.Pattern
}

// cstate is the porcupine state: the tag registered for each key (0 = absent).
type cstate [maxKeys]int

func (s cstate) mask() int {
	m := 0
	for i, v := range s {
		if v != 0 {
			m |= 1 << i
		}
	}
	return m
}

// expect is the reference outcome of serving one probe for one set of present keys.
type expect struct {
	Kind   model.Kind
	Key    int // serving key for KRoute
	Params string
	Allow  string
	TSR    bool
}

type concWorld struct {
	w        *world.World
	cfg      world.Cfg
	keys     []ckey
	conflict [maxKeys][maxKeys]bool
	probes   []world.Probe
	table    [][]expect // [probe][mask]
	pool     []*model.Pattern
	ballast  int // routes registered outside the key set: a deep chain of nested prefixes under /~
	ballastM string
	// handOff, when set (C05), receives the Snapshot() of a write transaction (SnapEnd 4): another task reads it while
	// the transaction goes on - two distinct Txn values, each used by one goroutine
	handOff func(*fox.Txn)
	// stale (C06): read-only transactions opened before the last commits of the setup; each is used by one reader
	stale []*fox.Txn
	// logger (C05): the built-in Logger middleware is installed; the scheduler run goes through runSched
	logger bool
}

// runSched runs the scheduler; with the built-in Logger installed, what it writes to standard output/error during the
// run is diverted to a scratch file.
func (cw *concWorld) runSched(s *sim.Sched) (out sim.Outcome) {
	if !cw.logger {
		return s.Run()
	}
	_, _ = world.CaptureStderr(func() { out = s.Run() })
	return out
}

// ballast routes live under /~, which no key and no probe reaches; they only change the shape (depth) of the tree.
const ballastPrefix = "/~"

// key families: patterns that share nodes, so that writers on different keys clone and edit the same tree nodes.
var keyFamilies = [][]string{
	{"/a", "/ab", "/a/{x}", "/a/*{y}", "h.b/a", "/a/b"},
	{"/a/b", "/a/{x}", "/a/{x}/c", "/a/*{y}", "/{z}/b", "/a/bc"},
	{"/{x}", "/{x}/a", "/{x}/{y}", "/*{z}", "/a", "/ab/c"},
	{"a.b/x", "{h}.b/x", "/x", "a.b/{y}", "a.{t}/x", "/x/y"},
	{"/f/a", "/f/b", "/f/{p}", "/f/a/b", "/g", "/f/*{q}"},
	{"/a/{x}", "/a/{y}", "/a/b", "/a/{x}/b", "/a/{y}/c", "/a"},             // contains conflicting keys
	{"/s/c", "/s/a", "/s/e", "/s/b", "/s/d", "/s/{x}", "/s/*{y}", "/s/ab"}, // many siblings under one node (children slices grow and are re-sorted)
	{"/s/m", "/s/k", "/s/o", "/s/j", "/s/n", "/s/l", "/s/p", "/s/i"},
	{"/i/*{w}/r/{id}", "/i/*{w}/r", "/i/a/r/b", "/i/{p}", "/i/a", "i.b/*{w}/r/{id}"}, // infix catch-alls followed by a parameter: lookups below them run on a second pooled context
}

func buildConcWorld(src sim.Source, res *Result, tsMode int, loggerDraw ...bool) *concWorld {
	cw := &concWorld{}
	if len(loggerDraw) > 0 && loggerDraw[0] && src.Intn("builtinlogger", 8) == 7 {
		// (C05) the Logger middleware with fox's built-in log handler in front of every handler: what that handler keeps
		// between records is shared by all requests of the process; the run's output on fds 1/2 is diverted (runSched)
		cw.logger = true
		res.inc("runs_with_builtin_logger_middleware")
	}
	cw.cfg = world.Cfg{NoMethod: sim.Bool(src, "405"), AutoOptions: sim.Bool(src, "autoopt"), GlobalTS: tsMode,
		CacheSize: sim.Pick(src, "cache", []int{0, 1, 2, 3, 8})}
	fam := keyFamilies[src.Intn("family", len(keyFamilies))]
	nk := 3 + src.Intn("nkeys", len(fam)-2)
	methods := []string{"GET", "GET", "GET", "POST", "PURGE"}
	for i := 0; i < nk; i++ {
		p, err := model.Parse(fam[i])
		if err != nil {
			res.Trouble = "bad key pattern " + fam[i]
			return nil
		}
		cw.keys = append(cw.keys, ckey{Method: sim.Pick(src, "kmethod", methods), Pat: p})
		cw.pool = append(cw.pool, p)
	}
	// conflict matrix from the model's rule
	for i := range cw.keys {
		for j := range cw.keys {
			if i == j || cw.keys[i].Method != cw.keys[j].Method {
				continue
			}
			set := model.NewSet()
			set.Insert(&model.Route{Method: cw.keys[j].Method, Pattern: cw.keys[j].Pat.Raw, Pat: cw.keys[j].Pat, Tag: 1})
			cw.conflict[i][j] = len(set.Conflicts(cw.keys[i].Method, cw.keys[i].Pat)) > 0
		}
	}
	// probes: instantiations of the keys (plus an OPTIONS and an unknown path)
	seen := map[string]bool{}
	for i := 0; i < nk+2; i++ {
		k := cw.keys[i%nk]
		h, p := world.Instantiate(src, k.Pat)
		pr := world.Probe{Method: k.Method, Host: h, Path: p}
		switch src.Intn("probevar", 8) {
		case 4:
			// slash-toggled form: answered through the trailing-slash machinery (ignored, redirected or unmatched)
			if strings.HasSuffix(pr.Path, "/") && len(pr.Path) > 1 {
				pr.Path = pr.Path[:len(pr.Path)-1]
			} else {
				pr.Path += "/"
			}
		case 5:
			pr.Method = "OPTIONS"
		case 6:
			pr.Method = sim.Pick(src, "othermethod", []string{"GET", "POST", "PURGE"})
		case 7:
			pr.Path += "/zz"
		}
		id := pr.Method + " " + pr.Host + pr.Path
		if !seen[id] {
			seen[id] = true
			cw.probes = append(cw.probes, pr)
		}
	}
	if cw.cfg.AutoOptions && src.Intn("optionsstar", 3) == 0 {
		// the server-wide OPTIONS request: its Allow header lists every method that has routes at that instant
		cw.probes = append(cw.probes, world.Probe{Method: "OPTIONS", Path: "*"})
	}
	// expectation table, filled on demand (see expectFor)
	cw.table = make([][]expect, len(cw.probes))
	for pi := range cw.probes {
		cw.table[pi] = make([]expect, 1<<nk)
		for m := range cw.table[pi] {
			cw.table[pi][m].Kind = -9
		}
	}
	var extra []fox.GlobalOption
	if cw.logger {
		extra = append(extra, fox.WithMiddleware(fox.Logger()))
	}
	w, err := world.Build(cw.cfg, extra...)
	if err != nil {
		res.Trouble = "build: " + err.Error()
		return nil
	}
	cw.w = w
	// tree-depth knob: iterators and the lookup's backtracking stack size themselves from the tree depth (stack
	// allocation below 25 levels, heap above); one run in six works on a tree deeper than that
	if src.Intn("deep", 6) == 5 {
		n := 26 + src.Intn("depth", 16)
		bm := sim.Pick(src, "ballastmethod", []string{"TRACE", "GET"}) // its own method tree, or the one most keys live in
		for i := 1; i <= n; i++ {
			if _, err := w.R.Handle(bm, ballastPrefix+strings.Repeat("d", i), world.Handler(0)); err != nil {
				res.Trouble = "ballast: " + err.Error()
				return nil
			}
		}
		cw.ballast, cw.ballastM = n, bm
		res.inc("runs_on_tree_deeper_than_25")
	}
	// one run in four starts from a published state that went through a committed Truncate of a custom verb with routes
	// (a verb no key uses: its root is gone again, what the removal leaves behind in the published root list stays)
	if src.Intn("truncatedhistory", 4) == 3 {
		if _, err := w.R.Handle("UNLINK", ballastPrefix+"unlink", world.Handler(0)); err != nil {
			res.Trouble = "truncated history: " + err.Error()
			return nil
		}
		if err := w.R.Updates(func(txn *fox.Txn) error { return txn.Truncate("UNLINK") }); err != nil {
			res.Trouble = "truncated history: " + err.Error()
			return nil
		}
		res.inc("runs_after_a_committed_truncate_of_a_custom_verb")
	}
	return cw
}

// expectFor returns the reference outcome of serving probe pi when exactly the keys in mask are registered.
func (cw *concWorld) expectFor(pi, mask int) expect {
	if e := cw.table[pi][mask]; e.Kind != -9 {
		return e
	}
	pr := cw.probes[pi]
	mcfg := model.Config{NoMethod: cw.cfg.NoMethod, AutoOptions: cw.cfg.AutoOptions}
	set := model.NewSet()
	ok := true
	for i, k := range cw.keys {
		if mask&(1<<i) != 0 {
			r := world.ModelRoute(cw.cfg, k.Method, k.Pat, i+1, world.RouteOpt{})
			if err := set.Insert(r); err != nil {
				ok = false // unreachable state (conflicting keys cannot coexist)
			}
		}
	}
	if cw.ballast > 0 {
		// the ballast chain never matches a probe path, but its method has routes (server-wide OPTIONS lists it)
		if bp, err := model.Parse(ballastPrefix + "d"); err == nil {
			_ = set.Insert(world.ModelRoute(cw.cfg, cw.ballastM, bp, 99, world.RouteOpt{}))
		}
	}
	e := expect{Kind: -2}
	if ok {
		sv := set.Serve(mcfg, pr.Method, pr.Host, pr.Path, pr.Path, model.MatchOpts{})
		e = expect{Kind: sv.Kind, Key: -1, Allow: strings.Join(sv.Allow, ","), TSR: sv.TSR}
		if sv.Kind == model.KRoute {
			e.Key = sv.Route.Tag - 1
			e.Params = world.FmtParams(sv.Params)
		}
	}
	cw.table[pi][mask] = e
	return e
}

// ---- operations ---------------------------------------------------------------------------------------------------

// COp is one operation of a task program.
type COp struct {
	Kind   string // handle update delete has route serve lookup reverse len iterall view txn
	Key    int
	Tag    int
	Probe  int
	Keys   []int // view: keys read from one snapshot
	Txn    *CTxn
	Yields int    // serve: yields inside the handler
	Via    bool   // handle/update: through Router.NewRoute + HandleRoute/UpdateRoute instead of Handle/Update
	Inner  string // serve_write: the write the handler performs on the router (handle update delete), as in the README's Action example
}

// CTxn is a write transaction of a task program.
type CTxn struct {
	Managed bool
	Ops     []COp  // handle update delete has route
	End     string // commit abort error panic
	EndAt   int
	PanicV  int // panic ending: which value (injectedPanicValue)
	SnapAt  int // take a Snapshot()/Iter() after this many ops (-1 never)
	SnapEnd int // what is done with that snapshot while the transaction stays open: 0 dropped, 1 Abort, 2 Commit, 3 a write through it (must be refused), then Abort, 4 a second snapshot is handed to a reader task (C05)
}

func (o COp) String() string {
	switch o.Kind {
	case "handle", "update":
		if o.Via {
			return fmt.Sprintf("%sroute(k%d,tag=%d)", o.Kind, o.Key, o.Tag)
		}
		return fmt.Sprintf("%s(k%d,tag=%d)", o.Kind, o.Key, o.Tag)
	case "delete", "has", "route", "iterroutes", "truncabort":
		return fmt.Sprintf("%s(k%d)", o.Kind, o.Key)
	case "serve", "lookup", "reverse":
		return fmt.Sprintf("%s(p%d)", o.Kind, o.Probe)
	case "serve_write":
		return fmt.Sprintf("serve(p%d){%s(k%d,tag=%d)}", o.Probe, o.Inner, o.Key, o.Tag)
	case "view":
		return fmt.Sprintf("view(%v)", o.Keys)
	case "txn":
		return fmt.Sprintf("txn(managed=%v %v end=%s@%d)", o.Txn.Managed, o.Txn.Ops, o.Txn.End, o.Txn.EndAt)
	}
	return o.Kind
}

// COut is the observed result of an operation.
type COut struct {
	Class  string // write ops: ok exist notfound conflict ...
	Tag    int    // route/delete: tag; serve: tag of the serving route
	Bool   bool   // has
	N      int    // len
	Kind   model.Kind
	Params string
	Allow  string
	TSR    bool
	Snap   string // iterall / view: canonical rendering
	Sub    []COut // txn: result of each executed op
	Done   bool   // txn: committed
	Ran    int    // txn: operations executed
	Bad    string // txn: a side check failed (reported through the history: the operation is never linearizable)
}

func (o COut) String() string {
	return fmt.Sprintf("{%s tag=%d b=%v n=%d kind=%d params=%s allow=%s snap=%s sub=%v done=%v%s}", o.Class, o.Tag, o.Bool, o.N, o.Kind, o.Params, o.Allow, o.Snap, o.Sub, o.Done, o.Bad)
}

func genWriteCOp(src sim.Source, nk int, tag int) COp {
	op := COp{Key: src.Intn("key", nk), Tag: tag, Via: src.Intn("viaroute", 4) == 0}
	switch k := src.Intn("wkind", 10); {
	case k < 4:
		op.Kind = "handle"
	case k < 7:
		op.Kind = "update"
	default:
		op.Kind = "delete"
	}
	return op
}

func genReadCOp(src sim.Source, cw *concWorld) COp {
	nk := len(cw.keys)
	switch k := src.Intn("rkind", 12); {
	case k < 2:
		return COp{Kind: "has", Key: src.Intn("key", nk)}
	case k < 4:
		return COp{Kind: "route", Key: src.Intn("key", nk)}
	case k < 7:
		return COp{Kind: "serve", Probe: src.Intn("probe", len(cw.probes)), Yields: src.Intn("hy", 3)}
	case k < 8:
		return COp{Kind: "lookup", Probe: src.Intn("probe", len(cw.probes))}
	case k < 9:
		return COp{Kind: "reverse", Probe: src.Intn("probe", len(cw.probes))}
	case k < 10:
		return COp{Kind: "len"}
	case k < 11:
		if src.Intn("iterkind", 2) == 1 {
			return COp{Kind: "iterroutes", Key: src.Intn("key", nk)}
		}
		return COp{Kind: "iterall"}
	default:
		op := COp{Kind: "view"}
		n := 2 + src.Intn("viewkeys", 2)
		for i := 0; i < n; i++ {
			op.Keys = append(op.Keys, src.Intn("key", nk))
		}
		return op
	}
}

func genCTxn(src sim.Source, cw *concWorld, nextTag *int) *CTxn {
	t := &CTxn{Managed: sim.Bool(src, "managed"), SnapAt: -1}
	n := 1 + src.Intn("txnops", 4)
	for i := 0; i < n; i++ {
		if src.Intn("txnread", 4) == 3 {
			if sim.Bool(src, "hasorroute") {
				t.Ops = append(t.Ops, COp{Kind: "route", Key: src.Intn("key", len(cw.keys))})
			} else {
				t.Ops = append(t.Ops, COp{Kind: "has", Key: src.Intn("key", len(cw.keys))})
			}
			continue
		}
		*nextTag++
		t.Ops = append(t.Ops, genWriteCOp(src, len(cw.keys), *nextTag))
	}
	switch e := src.Intn("end", 12); {
	case e < 6:
		t.End, t.EndAt = "commit", n
	case e < 8:
		t.End, t.EndAt = "abort", src.Intn("endat", n+1)
	case e < 9:
		t.End, t.EndAt = "error", src.Intn("endat", n+1)
	case e < 11:
		t.End, t.EndAt = "panic", src.Intn("endat", n+1)
		t.PanicV = src.Intn("panicvalue", 4)
	default:
		// the task's goroutine leaves through runtime.Goexit inside the transaction (nothing later in its program runs)
		t.End, t.EndAt = "goexit", src.Intn("endat", n+1)
	}
	if !t.Managed && t.End == "error" {
		t.End = "abort"
	}
	if src.Intn("snap", 4) == 3 {
		t.SnapAt = src.Intn("snapat", n+1)
		t.SnapEnd = src.Intn("snapend", 5)
	}
	return t
}

// ---- execution on the real router -----------------------------------------------------------------------------------

type opRecord struct {
	Client int
	In     COp
	Out    COut
	Call   uint64
	Ret    uint64
}

type taskLog struct {
	ops   []opRecord
	panic any
}

func (cw *concWorld) routeOpts(tag int) []fox.RouteOption {
	return world.FoxOpts(tag, world.RouteOpt{})
}

// execWrite performs a single write on wr (router or txn).
func (cw *concWorld) execWrite(wr world.Writer, op COp) COut {
	k := cw.keys[op.Key]
	var rt *fox.Route
	var err error
	switch op.Kind {
	case "handle", "update":
		if op.Via {
			// the two-step form: build the route without any lock, then register it
			if rt, err = cw.w.R.NewRoute(k.Pat.Raw, world.Handler(op.Tag), cw.routeOpts(op.Tag)...); err == nil {
				if op.Kind == "handle" {
					err = wr.HandleRoute(k.Method, rt)
				} else {
					err = wr.UpdateRoute(k.Method, rt)
				}
			}
		} else if op.Kind == "handle" {
			rt, err = wr.Handle(k.Method, k.Pat.Raw, world.Handler(op.Tag), cw.routeOpts(op.Tag)...)
		} else {
			rt, err = wr.Update(k.Method, k.Pat.Raw, world.Handler(op.Tag), cw.routeOpts(op.Tag)...)
		}
	case "delete":
		rt, err = wr.Delete(k.Method, k.Pat.Raw)
	}
	out := COut{Class: world.ErrClass(err), Tag: -1}
	if err == nil {
		out.Tag = world.TagOf(rt)
	}
	return out
}

func (cw *concWorld) execRead(s *sim.Sched, rd world.Reader, op COp) COut {
	switch op.Kind {
	case "has":
		k := cw.keys[op.Key]
		return COut{Bool: rd.Has(k.Method, k.Pat.Raw)}
	case "route":
		k := cw.keys[op.Key]
		return COut{Tag: world.TagOf(rd.Route(k.Method, k.Pat.Raw))}
	case "len":
		return COut{N: rd.Len()}
	case "lookup":
		o := world.ObsLookup(rd, cw.probes[op.Probe])
		return COut{Tag: o.Tag, Params: world.FmtParams(o.Params), TSR: o.TSR}
	case "reverse":
		o := world.ObsReverse(rd, cw.probes[op.Probe])
		return COut{Tag: o.Tag, TSR: o.TSR}
	case "iterall":
		it := rd.Iter()
		s.Yield(sim.PtIter)
		var items []string
		for m, r := range it.All() {
			if !strings.HasPrefix(r.Pattern(), ballastPrefix) {
				items = append(items, fmt.Sprintf("%s %s#%d", m, r.Pattern(), world.TagOf(r)))
			}
			s.Yield(sim.PtIter)
		}
		sort.Strings(items)
		return COut{Snap: strings.Join(items, "|")}
	case "iterroutes":
		// one sequence value ranged twice (with other tasks running in between): both ranges show the snapshot taken
		// by Iter(), whatever happened to pooled lookup contexts meanwhile
		k := cw.keys[op.Key]
		it := rd.Iter()
		seq := it.Routes(it.Methods(), k.Pat.Raw)
		var tags [2]int
		for round := range tags {
			tags[round] = -1
			for m, r := range seq {
				if m == k.Method {
					tags[round] = world.TagOf(r)
				}
				s.Yield(sim.PtIter)
			}
			s.Yield(sim.PtIter)
		}
		out := COut{Tag: tags[0]}
		if tags[1] != tags[0] {
			out.Class = fmt.Sprintf("second range over the same sequence gives #%d, the first gave #%d", tags[1], tags[0])
		}
		return out
	}
	panic("execRead: " + op.Kind)
}

func (cw *concWorld) execServe(s *sim.Sched, op COp) COut { return cw.execServeWith(s, op, nil) }

func (cw *concWorld) execServeWith(s *sim.Sched, op COp, inHandler func()) COut {
	yields := op.Yields
	obs := cw.w.Serve(cw.probes[op.Probe], "", "", func(c fox.Context, h *world.Hit) {
		for i := 0; i < yields; i++ {
			s.Yield(sim.PtHandler)
		}
		if inHandler != nil {
			inHandler()
			s.Yield(sim.PtHandler)
		}
		// re-read the context after other tasks ran: it must still show this request
		h.Params = world.CollectParams(c)
		h.Pattern = c.Pattern()
	})
	out := COut{Kind: obs.Kind, Tag: -1, Allow: strings.Join(obs.Allow, ",")}
	if obs.Panic != nil {
		out.Class = fmt.Sprintf("panic: %v", obs.Panic)
	}
	if obs.Kind == model.KRoute {
		out.Tag = obs.Hit.Tag
		out.Params = world.FmtParams(obs.Hit.Params)
	}
	return out
}

// execView reads several keys inside one read-only managed transaction.
func (cw *concWorld) execView(s *sim.Sched, op COp) COut {
	var parts []string
	var torn string
	_ = cw.w.R.View(func(txn *fox.Txn) error {
		for _, ki := range op.Keys {
			k := cw.keys[ki]
			parts = append(parts, fmt.Sprintf("k%d=%d", ki, tagOrZero(txn.Route(k.Method, k.Pat.Raw))))
			s.Yield(sim.PtTxnFn)
		}
		// one committed version, whichever: the count it reports is the number of routes it iterates
		n := 0
		for range txn.Iter().All() {
			n++
		}
		if l := txn.Len(); l != n {
			torn = fmt.Sprintf("read-only transaction reports Len()=%d but iterates %d routes (not one committed version)", l, n)
		}
		return nil
	})
	return COut{Snap: strings.Join(parts, ","), Class: torn}
}

func tagOrZero(r *fox.Route) int {
	if r == nil {
		return 0
	}
	return world.TagOf(r)
}

// execTxn runs a write transaction program. Injected panics are recovered here; any other panic propagates.
func (cw *concWorld) execTxn(s *sim.Sched, t *CTxn) COut {
	var out COut
	cw.execTxnInto(s, t, &out)
	return out
}

// execTxnInto fills *out as it goes, so that the caller can still record the operation when the goroutine leaves through
// runtime.Goexit in the middle of it.
func (cw *concWorld) execTxnInto(s *sim.Sched, t *CTxn, out *COut) {
	body := func(txn *fox.Txn) error {
		for i, op := range t.Ops {
			if i == t.EndAt && t.End != "commit" {
				if t.End == "panic" {
					panic(injectedPanicValue(t.PanicV, i))
				}
				if t.End == "goexit" {
					runtime.Goexit()
				}
				return errInjected
			}
			if i == t.SnapAt {
				// a snapshot is a read-only transaction: settling it is a no-op for the transaction it came from (which keeps
				// the writer lock and its unpublished writes), and writing through it is refused
				snap := txn.Snapshot()
				_ = snap.Len()
				switch t.SnapEnd {
				case 1:
					snap.Abort()
				case 2:
					snap.Commit()
				case 3:
					k := cw.keys[0]
					if _, err := snap.Handle(k.Method, k.Pat.Raw, world.Handler(0)); !errors.Is(err, fox.ErrReadOnlyTxn) {
						out.Bad = fmt.Sprintf("Handle through a Snapshot() returned %v, want ErrReadOnlyTxn", err)
					}
					snap.Abort()
				case 4:
					if cw.handOff != nil {
						_ = txn.Has(cw.keys[0].Method, cw.keys[0].Pat.Raw) // (the transaction has looked something up before)
						cw.handOff(txn.Snapshot())
					}
				}
			}
			var o COut
			switch op.Kind {
			case "has", "route":
				o = cw.execRead(s, txn, op)
			default:
				o = cw.execWrite(txn, op)
			}
			out.Sub = append(out.Sub, o)
			out.Ran++
			s.Yield(sim.PtTxnFn)
		}
		if t.End != "commit" {
			if t.End == "panic" {
				panic(injectedPanicValue(t.PanicV, len(t.Ops)))
			}
			if t.End == "goexit" {
				runtime.Goexit()
			}
			return errInjected
		}
		return nil
	}
	defer func() {
		if p := recover(); p != nil {
			if !isInjectedPanic(p, &TxnProg{End: t.End, PanicV: t.PanicV}) {
				panic(p)
			}
		}
	}()
	if t.Managed {
		err := cw.w.R.Updates(body)
		out.Done = err == nil
		return
	}
	txn := cw.w.R.Txn(true)
	defer txn.Abort()
	if err := body(txn); err == nil {
		txn.Commit()
		out.Done = true
	}
}

// runProgram executes a task's program, recording invoke/return stamps.
func (cw *concWorld) runProgram(s *sim.Sched, client int, prog []COp, log *taskLog) {
	for _, op := range prog {
		rec := opRecord{Client: client, In: op, Call: s.Stamp()}
		switch op.Kind {
		case "handle", "update", "delete":
			rec.Out = cw.execWrite(cw.w.R, op)
		case "serve":
			rec.Out = cw.execServe(s, op)
		case "serve_write":
			// a request whose handler mutates the router: recorded as two operations (the request and, nested in it, the write)
			inner := COp{Kind: op.Inner, Key: op.Key, Tag: op.Tag}
			var wrec opRecord
			obsOp := COp{Kind: "serve", Probe: op.Probe}
			rec.In = obsOp
			rec.Out = cw.execServeWith(s, obsOp, func() {
				wrec = opRecord{Client: client, In: inner, Call: s.Stamp()}
				wrec.Out = cw.execWrite(cw.w.R, inner)
				wrec.Ret = s.Stamp()
			})
			rec.Ret = s.Stamp()
			log.ops = append(log.ops, rec)
			if wrec.Call != 0 {
				log.ops = append(log.ops, wrec)
			}
			s.Yield(sim.PtUser)
			continue
		case "truncabort":
			// (C06, converse family) a write transaction that truncates one method - or all - and is then aborted: no
			// effect on the routes, but the truncation walks the tree it is about to drop
			txn := cw.w.R.Txn(true)
			var terr error
			if op.Key < 0 {
				terr = txn.Truncate()
			} else {
				terr = txn.Truncate(cw.keys[op.Key].Method)
			}
			if terr != nil {
				rec.Out.Bad = "Truncate: " + terr.Error()
			}
			s.Yield(sim.PtTxnFn)
			txn.Abort()
		case "view":
			rec.Out = cw.execView(s, op)
		case "txn":
			if op.Txn.End == "goexit" {
				// the task ends inside this operation: record it from a deferred function
				out := &COut{}
				func() {
					defer func() {
						rec.Out = *out
						rec.Ret = s.Stamp()
						log.ops = append(log.ops, rec)
					}()
					cw.execTxnInto(s, op.Txn, out)
				}()
				return // not reached: Goexit unwinds the whole task
			}
			rec.Out = cw.execTxn(s, op.Txn)
		default:
			rec.Out = cw.execRead(s, cw.w.R, op)
		}
		rec.Ret = s.Stamp()
		log.ops = append(log.ops, rec)
		s.Yield(sim.PtUser)
	}
}

// ---- sequential specification (porcupine model) ---------------------------------------------------------------------

func (cw *concWorld) stepWrite(st cstate, op COp, out COut) (bool, cstate) {
	switch op.Kind {
	case "handle":
		if st[op.Key] != 0 {
			return out.Class == "exist", st
		}
		for j := range cw.keys {
			if st[j] != 0 && cw.conflict[op.Key][j] {
				return out.Class == "conflict", st
			}
		}
		if out.Class != "ok" || out.Tag != op.Tag {
			return false, st
		}
		st[op.Key] = op.Tag
		return true, st
	case "update":
		if st[op.Key] == 0 {
			return out.Class == "notfound", st
		}
		if out.Class != "ok" || out.Tag != op.Tag {
			return false, st
		}
		st[op.Key] = op.Tag
		return true, st
	case "delete":
		if st[op.Key] == 0 {
			return out.Class == "notfound", st
		}
		if out.Class != "ok" || out.Tag != st[op.Key] {
			return false, st
		}
		st[op.Key] = 0
		return true, st
	}
	return false, st
}

func (cw *concWorld) snapOf(st cstate) string {
	var items []string
	for i, k := range cw.keys {
		if st[i] != 0 {
			items = append(items, fmt.Sprintf("%s %s#%d", k.Method, k.Pat.Raw, st[i]))
		}
	}
	sort.Strings(items)
	return strings.Join(items, "|")
}

func (cw *concWorld) stepRead(st cstate, op COp, out COut) bool {
	switch op.Kind {
	case "has":
		return out.Bool == (st[op.Key] != 0)
	case "route", "iterroutes":
		want := st[op.Key]
		if want == 0 {
			want = -1
		}
		return out.Tag == want && (op.Kind == "route" || out.Class == "")
	case "len":
		n := 0
		for _, v := range st {
			if v != 0 {
				n++
			}
		}
		return out.N == n+cw.ballast
	case "iterall":
		return out.Snap == cw.snapOf(st)
	case "view":
		var parts []string
		for _, ki := range op.Keys {
			parts = append(parts, fmt.Sprintf("k%d=%d", ki, st[ki]))
		}
		return out.Class == "" && out.Snap == strings.Join(parts, ",")
	case "serve":
		e := cw.expectFor(op.Probe, st.mask())
		if out.Class != "" || out.Kind != e.Kind || out.Allow != e.Allow {
			return false
		}
		if e.Kind == model.KRoute {
			return out.Tag == st[e.Key] && out.Params == e.Params
		}
		return true
	case "lookup", "reverse":
		e := cw.expectFor(op.Probe, st.mask())
		// Lookup/Reverse report the matched route (direct or slash-adjusted) whatever the dispatcher does with it
		if e.Kind == model.KRoute && !e.TSR {
			if out.Tag != st[e.Key] || out.TSR {
				return false
			}
			return op.Kind == "reverse" || out.Params == e.Params
		}
		// no direct match: must not report a direct match
		return out.Tag == -1 || out.TSR
	}
	return false
}

func (cw *concWorld) porcupineModel() porcupine.Model {
	return porcupine.Model{
		Init: func() interface{} { return cstate{} },
		Step: func(state, input, output interface{}) (bool, interface{}) {
			st := state.(cstate)
			op := input.(COp)
			out := output.(COut)
			switch op.Kind {
			case "handle", "update", "delete":
				ok, ns := cw.stepWrite(st, op, out)
				return ok, ns
			case "txn":
				t := op.Txn
				priv := st
				want := len(t.Ops)
				if t.End != "commit" && t.EndAt < want {
					want = t.EndAt
				}
				if out.Ran != want || len(out.Sub) != want || out.Bad != "" {
					return false, st
				}
				for i := 0; i < want; i++ {
					sub := t.Ops[i]
					switch sub.Kind {
					case "has", "route":
						if !cw.stepRead(priv, sub, out.Sub[i]) {
							return false, st
						}
					default:
						ok, ns := cw.stepWrite(priv, sub, out.Sub[i])
						if !ok {
							return false, st
						}
						priv = ns
					}
				}
				if (t.End == "commit") != out.Done {
					return false, st
				}
				if out.Done {
					return true, priv
				}
				return true, st
			case "truncabort":
				return out.Bad == "", st // an aborted transaction: no effect at any point of the order
			default:
				return cw.stepRead(st, op, out), st
			}
		},
		Equal: func(a, b interface{}) bool { return a.(cstate) == b.(cstate) },
		DescribeOperation: func(input, output interface{}) string {
			return fmt.Sprintf("%v -> %v", input.(COp), output.(COut))
		},
	}
}

// checkLinearizable feeds the recorded history (plus a final audit of every key) to porcupine.
func (cw *concWorld) checkLinearizable(res *Result, logs []*taskLog, audit []opRecord) {
	var hist []porcupine.Operation
	var all []opRecord
	for _, l := range logs {
		all = append(all, l.ops...)
	}
	all = append(all, audit...)
	for _, r := range all {
		hist = append(hist, porcupine.Operation{ClientId: r.Client, Input: r.In, Call: int64(r.Call), Output: r.Out, Return: int64(r.Ret)})
	}
	res.Checks += len(hist)
	verdict := porcupine.CheckOperationsTimeout(cw.porcupineModel(), hist, 20*time.Second)
	switch verdict {
	case porcupine.Ok:
		res.inc("porcupine_ok")
	case porcupine.Unknown:
		res.inc("porcupine_unknown")
	case porcupine.Illegal:
		res.inc("porcupine_illegal")
		sort.Slice(all, func(i, j int) bool { return all[i].Call < all[j].Call })
		var lines []string
		for _, r := range all {
			lines = append(lines, fmt.Sprintf("[%d,%d] c%d %v -> %v", r.Call, r.Ret, r.Client, r.In, r.Out))
		}
		res.Case["history"] = lines
		res.fail(res.Case["prop"].(string)+"/not-linearizable", "the recorded history of %d operations has no linearization consistent with a sequential map and the reference dispatcher", len(hist))
	}
}

// auditOps reads every key once after all tasks finished (single caller): lost or doubled writes show up here.
func (cw *concWorld) auditOps(stamp *uint64) []opRecord {
	var out []opRecord
	for i := range cw.keys {
		op := COp{Kind: "route", Key: i}
		*stamp++
		call := *stamp
		o := COut{Tag: world.TagOf(cw.w.R.Route(cw.keys[i].Method, cw.keys[i].Pat.Raw))}
		*stamp++
		out = append(out, opRecord{Client: 99, In: op, Out: o, Call: call, Ret: *stamp})
	}
	op := COp{Kind: "len"}
	*stamp++
	call := *stamp
	o := COut{N: cw.w.R.Len()}
	*stamp++
	out = append(out, opRecord{Client: 99, In: op, Out: o, Call: call, Ret: *stamp})
	return out
}

// drawPolicy sets the per-run scheduling policy (swarm): which yield points are active and how sticky tasks are.
func drawPolicy(src sim.Source, s *sim.Sched) {
	stay := sim.Pick(src, "stay", [][2]int{{1, 2}, {0, 1}, {3, 4}, {7, 8}, {15, 16}})
	s.StayNum, s.StayDen = stay[0], stay[1]
	// each fox point is switched off with probability 1/4 (fewer, longer atomic blocks); never all of them
	for _, pt := range []sim.Point{sim.PtLocked, sim.PtBeforeLoad, sim.PtAfterLoad, sim.PtCommit, sim.PtStored, sim.PtUnlocked, sim.PtAbort, sim.PtBeforeUnlock, sim.PtBeforeStore, sim.PtTryLock, sim.PtRouteOpts, sim.PtAcquire, sim.PtUser, sim.PtTxnFn, sim.PtIter, sim.PtHandler} {
		if src.Intn("ptoff", 4) == 3 {
			s.Disabled[pt] = true
		}
	}
}

func describeTasks(progs [][]COp) []string {
	var out []string
	for i, p := range progs {
		var ops []string
		for _, o := range p {
			ops = append(ops, o.String())
		}
		out = append(out, fmt.Sprintf("task%d: %s", i, strings.Join(ops, "; ")))
	}
	return out
}
