package props

import (
	"strings"
	"sort"
	"errors"
	"fmt"
	"log/slog"
	"net"
	"net/http"
	"strconv"

	"github.com/tigerwill90/fox"

	"verif/harness/model"
	"verif/harness/sim"
	"verif/harness/world"
)

func init() {
	register(&Prop{
		ID: "C20", Level: "exploration",
		Rule: "one case = a router with LoggerWithHandler(capturing handler) over all handler kinds, a drawn router-wide client-IP resolver (none, succeeding, failing - returning nil or a rejected candidate address next to its error) and routes with a drawn per-route resolver (inherit, other succeeding, failing, nil), plus a twin router without the logger; 8-20 requests per run, each with a scripted handler behaviour from {explicit status at the class boundaries 200/299/300/399/400/499/500/599 and every code 301-308 and 310, each with or without a Location header set, 201 with a Location header, informational only, implicit 200 by a body write, no write at all, redirect with Location, 3xx without Location, a handler that replaces the writer (SetWriter) and answers through the new one, write on a failing connection, panic with a drawn value} and a drawn handler kind (route, no-route, no-method, built-in redirect, options). The log handler has a drawn minimum level (DEBUG..ERROR). Oracle: exactly one record per returning handler whose level reaches that minimum (none below it), emitted after the handler returned; status attribute = the status the recorder reports (first final status forwarded, 200 if none); method, host, path of the request; message = resolved client IP / remote address when no resolver is configured / 'unknown' when resolution fails, using the route's resolver in route handlers and the router-wide one elsewhere; level INFO/DEBUG/WARN/ERROR per status class, location attribute exactly for 3xx with a Location header; the bytes and headers on the simulated connection equal those of the twin router; a panic passes through as the identical value and emits no record. latency is ignored. Then 2-3 tasks send overlapping requests through the same wrapped handlers under the seeded scheduler (yields inside handlers and inside the log handler's Enabled, i.e. before slog copies the attributes): the records must be exactly one per request with that request's data. One time in three a middleware ahead of the Logger runs the chain on a CloneWith copy of the context (same records expected). Non-trivial: the run covered at least 3 status classes and 2 handler kinds; distinct = hash of (configuration, request scripts).",
		Run:  runC20, Quick: 64000, Thorough: 9600000,
		Real: []string{"Logger middleware (logger.go)", "Context.ClientIP / RemoteIP", "recorder ResponseWriter", "ServeHTTP dispatch", "option processing (WithClientIPResolver)"},
		Stub: []string{"slog sink: capturing handler", "client-IP resolvers: scripted", "net/http connection: simulated connection", "wall clock: real but unobserved (latency attribute excluded)"},
	})
}

type scriptedResolver struct {
	ip  string
	err error
}

func (r scriptedResolver) ClientIP(c fox.Context) (*net.IPAddr, error) {
	if v := c.Request().Header.Get(realIPHeader); v != "" && r.err == nil {
		// like a header-based resolver: the answer belongs to the request as it is when asked
		return &net.IPAddr{IP: net.ParseIP(v)}, nil
	}
	if r.err != nil {
		if r.ip != "" {
			// a resolver may hand back its rejected candidate together with the reason: resolution still failed
			return &net.IPAddr{IP: net.ParseIP(r.ip)}, r.err
		}
		return nil, r.err
	}
	return &net.IPAddr{IP: net.ParseIP(r.ip)}, nil
}

var errResolver = errors.New("scripted resolver failure")

// realIPHeader, when present on the request, is what a succeeding scripted resolver answers with.
const (
	realIPHeader = "X-Sim-Real-Ip"
	realIPValue  = "203.0.113.200"
)

// remoteMarker stands for "the remote address as Context.RemoteIP reports it for this request".
const remoteMarker = "<remote address>"

func hasAttrs(attrs map[string]string, keys ...string) bool {
	for _, k := range keys {
		if _, ok := attrs[k]; !ok {
			return false
		}
	}
	return true
}

func levelOf(status int) slog.Level {
	switch {
	case status >= 200 && status < 300:
		return slog.LevelInfo
	case status >= 300 && status < 400:
		return slog.LevelDebug
	case status >= 400 && status < 500:
		return slog.LevelWarn
	case status >= 500:
		return slog.LevelError
	}
	return slog.LevelInfo
}

func runC20(src sim.Source, o Opts) *Result {
	res := newResult()
	res.Case["prop"] = "C20"
	// the log handler's own minimum level: slog drops what is below it, everything else must still arrive
	minLevel := sim.Pick(src, "minlevel", []slog.Level{slog.LevelDebug, slog.LevelDebug, slog.LevelInfo, slog.LevelWarn, slog.LevelError})
	capt := &world.Capture{MinLevel: minLevel}
	lateLevel := sim.Bool(src, "latelevel")
	if lateLevel {
		// a handler with a dynamic level (slog.LevelVar): while the middleware is being built it accepts nothing, the drawn
		// minimum level only applies from the first request on
		capt.MinLevel = slog.LevelError + 4
	}
	globalRes := src.Intn("globalresolver", 3)                                   // 0 none 1 ok 2 failing
	failIP := sim.Pick(src, "failingresolveraddr", []string{"", "203.0.113.66"}) // what a failing resolver returns next to its error
	var gopt []fox.GlobalOption
	switch globalRes {
	case 1:
		gopt = append(gopt, fox.WithClientIPResolver(scriptedResolver{ip: "203.0.113.7"}))
	case 2:
		gopt = append(gopt, fox.WithClientIPResolver(scriptedResolver{ip: failIP, err: errResolver}))
	}
	cfg := world.Cfg{NoMethod: true, AutoOptions: true, GlobalTS: 2}
	// one time in three a middleware AHEAD of the Logger runs the rest of the chain on a copy of the context made with
	// CloneWith (the documented way to substitute a writer): the Logger then reports from the copy, same record
	chain := []fox.MiddlewareFunc{fox.LoggerWithHandler(capt)}
	if src.Intn("cloningmw", 3) == 2 {
		res.inc("config_logger_behind_a_clonewith_middleware")
		chain = append([]fox.MiddlewareFunc{func(next fox.HandlerFunc) fox.HandlerFunc {
			return func(c fox.Context) {
				cp := c.CloneWith(c.Writer(), c.Request())
				defer cp.Close()
				next(cp)
			}
		}}, chain...)
	}
	w, err := world.Build(cfg, append([]fox.GlobalOption{fox.WithMiddleware(chain...)}, gopt...)...)
	if err != nil {
		res.Trouble = err.Error()
		return res
	}
	capt.MinLevel = minLevel
	twin, err := world.Build(cfg, gopt...)
	if err != nil {
		res.Trouble = err.Error()
		return res
	}
	// routes with per-route resolvers
	type rdef struct {
		Pattern  string
		Resolver int // 0 inherit 1 other ok 2 failing 3 nil
	}
	var routes []rdef
	for i, n := 0, 2+src.Intn("nroutes", 3); i < n; i++ {
		r := rdef{Pattern: fmt.Sprintf("/l%d/{x}", i), Resolver: src.Intn("routeresolver", 4)}
		routes = append(routes, r)
		ropts := func() []fox.RouteOption {
			o := world.FoxOpts(i+1, world.RouteOpt{})
			switch r.Resolver {
			case 1:
				o = append(o, fox.WithClientIPResolver(scriptedResolver{ip: "198.51.100.9"}))
			case 2:
				o = append(o, fox.WithClientIPResolver(scriptedResolver{ip: failIP, err: errResolver}))
			case 3:
				o = append(o, fox.WithClientIPResolver(nil))
			}
			return o
		}
		for _, ww := range []*world.World{w, twin} {
			if _, err := ww.R.Handle("GET", r.Pattern, world.Handler(i+1), ropts()...); err != nil {
				res.Trouble = err.Error()
				return res
			}
		}
	}
	res.Case["config"] = fmt.Sprintf("global resolver %d, routes %v, failing resolvers return address %q with their error, log handler minimum level %s (set after the middleware was built: %v)", globalRes, routes, failIP, capt.MinLevel, lateLevel)
	expectMsg := func(kind model.Kind, r rdef) string {
		eff := globalRes
		if kind == model.KRoute {
			switch r.Resolver {
			case 1:
				return "198.51.100.9"
			case 2:
				return "unknown"
			case 3:
				eff = 0
			}
		}
		switch eff {
		case 1:
			return "203.0.113.7"
		case 2:
			return "unknown"
		}
		return remoteMarker
	}
	behaviours := []string{"status", "status", "status", "setwriter", "2xx-with-location", "info-only", "implicit", "nothing", "redirect-loc", "3xx-noloc", "failing-conn", "panic"}
	statuses := []int{200, 299, 300, 399, 400, 499, 500, 599, 301, 302, 303, 304, 305, 306, 307, 308, 310}
	classes := map[slog.Level]bool{}
	kinds := map[model.Kind]bool{}
	var scripts []string
	nreq := 8 + src.Intn("nreq", 13)
	for q := 0; q < nreq && !res.failed(); q++ {
		ri := src.Intn("route", len(routes))
		r := routes[ri]
		kind := sim.Pick(src, "kind", []model.Kind{model.KRoute, model.KRoute, model.KNoRoute, model.KNoMethod, model.KRedirect, model.KOptions})
		beh := sim.Pick(src, "behaviour", behaviours)
		status := sim.Pick(src, "status", statuses)
		withLoc := src.Intn("withloc", 3) == 0 // behaviour "status": a Location header is set before the status is written
		// the Host field as sent: with a port, an IPv6 literal, upper-case letters, a trailing dot, or none at all
		p := world.Probe{Method: "GET", Host: sim.Pick(src, "reqhost", []string{"sim.invalid", "sim.invalid", "sim.invalid:8080", "[::1]:80", "SIM.Invalid.", ""}), Path: fmt.Sprintf("/l%d/v%d", ri, q)}
		switch kind {
		case model.KNoRoute:
			p.Path = "/nope/" + strconv.Itoa(q)
		case model.KNoMethod:
			// (verbs are case-sensitive tokens: "get" is not GET - the router answers 405, the record names "get")
			p.Method = sim.Pick(src, "othermethod", []string{"POST", "POST", "get", "Post", "dELETE", "patch", "Put"})
		case model.KRedirect:
			p.Path += "/"
		case model.KOptions:
			p.Method = "OPTIONS"
		}
		if kind == model.KRedirect {
			beh = "builtin"
		}
		// one request in five is sent with an escaped form that differs from its decoded path (RawPath set): the record
		// carries the request path, as Context.Path and net/http's URL.Path have it
		rawPath := ""
		if kind != model.KRedirect && src.Intn("escapedpath", 5) == 0 {
			rawPath = strings.Replace(p.Path, "/v", "/%76", 1) // %76 = 'v', a needlessly escaped byte
			if rawPath == p.Path {
				rawPath = ""
			}
		}
		scripts = append(scripts, fmt.Sprintf("%s %s (escaped %q) -> %s/%s/%d/loc=%v", p.Method, p.Path, rawPath, kind, beh, status, withLoc))
		pv := sim.Pick(src, "panicvalue", []any{"boom", errors.New("boom"), customPanic{1}})
		// the peer address: IPv4, IPv6, IPv6 with a zone, and forms without a parsable IP (unix-socket peers)
		// ... and host:port forms whose port is empty, a service name or out of range: the address is the host part
		remote := sim.Pick(src, "remoteaddr", []string{"192.0.2.1:1234", "192.0.2.1:1234", "[2001:db8::1]:80", "[fe80::1%eth0]:1234", "@", "", "192.0.2.1:", "192.0.2.1:http", "[2001:db8::1]:70000", "[192.0.2.9]:80", "192.0.2.7%eth1:443", "[fe80::1%25]:1234", "[fe80::1%251]:80", "[fe80::1%25eth0]:1", "[fe80::1%0]:1"})
		remoteSeen := "<not observed>"
		realIP := kind != model.KRedirect && src.Intn("realip", 4) == 3
		if realIP {
			res.inc("requests_replaced_after_client_ip_was_asked")
		}
		scripts[len(scripts)-1] += fmt.Sprintf(" from %s (request replaced after ClientIP was asked: %v)", remote, realIP)
		remoteWant := map[string]string{"192.0.2.1:1234": "192.0.2.1", "[2001:db8::1]:80": "2001:db8::1", "[fe80::1%eth0]:1234": "fe80::1%eth0", "@": "", "": "",
			"192.0.2.1:": "192.0.2.1", "192.0.2.1:http": "192.0.2.1", "[2001:db8::1]:70000": "2001:db8::1", "[192.0.2.9]:80": "192.0.2.9", "192.0.2.7%eth1:443": "192.0.2.7%eth1",
			"[fe80::1%25]:1234": "fe80::1%25", "[fe80::1%251]:80": "fe80::1%251", "[fe80::1%25eth0]:1": "fe80::1%25eth0", "[fe80::1%0]:1": "fe80::1%0"}[remote] // (zones are free text: numeric interface indexes included)
		run := func(ww *world.World, returned *bool) world.ServeObs {
			conn := world.NewConn()
			log := &world.ReqLog{Inner: func(c fox.Context, h *world.Hit) {
				if ww == w {
					remoteSeen = c.RemoteIP().String()
				}
				if realIP {
					// a guard asks for the client address, then a "real IP" stage replaces the request by one with
					// corrected forwarding information: the record is about the request as the handler leaves it
					_, _ = c.ClientIP()
					r2 := c.Request().Clone(c.Request().Context())
					r2.Header.Set(realIPHeader, realIPValue)
					c.SetRequest(r2)
				}
				wr := c.Writer()
				switch beh {
				case "status":
					if withLoc {
						c.SetHeader("Location", "http://sim.invalid/loc")
					}
					wr.WriteHeader(status)
				case "2xx-with-location":
					c.SetHeader("Location", "http://sim.invalid/created")
					wr.WriteHeader(201)
				case "info-only":
					wr.WriteHeader(103)
				case "implicit":
					_, _ = wr.Write([]byte("body"))
				case "nothing":
				case "redirect-loc":
					_ = c.Redirect(302, "http://sim.invalid/elsewhere")
				case "3xx-noloc":
					wr.WriteHeader(304)
				case "failing-conn":
					_, _ = wr.Write([]byte("body"))
				case "setwriter":
					// the handler replaces the writer (a buffering or rewriting writer would do that): what gets logged is
					// the status recorded by the writer attached to the context when the handler returns
					rw := world.NewRW(conn)
					c.SetWriter(rw)
					if withLoc {
						rw.Header().Set("Location", "http://sim.invalid/loc")
					}
					rw.WriteHeader(status)
				case "panic":
					panic(pv)
				}
				if returned != nil {
					*returned = true
				}
			}}
			req := world.NewRequest(p.Method, p.Host, p.Path, rawPath, "", log)
			req.RemoteAddr = remote
			if beh == "failing-conn" {
				conn.FailAfter = 1
			}
			obs := world.ServeObs{Log: log, Conn: conn}
			func() {
				defer func() { obs.Panic = recover() }()
				ww.R.ServeHTTP(conn, req)
			}()
			obs.Kind = -1
			for _, h := range log.Hits {
				obs.Kind = h.Kind
			}
			return obs
		}
		capt.Records = nil
		handlerReturned := false
		emittedBeforeReturn := false
		capt.OnRecord = func() {
			if !handlerReturned && kind != model.KRedirect {
				emittedBeforeReturn = true
			}
		}
		// special handlers of world write their default answer after Inner returns; "returned" is set inside Inner, which
		// is the last scripted action, so a record emitted before that point was emitted before the handler finished
		obs := run(w, &handlerReturned)
		ref := run(twin, nil)
		res.Checks++
		where := fmt.Sprintf("request %d (%s)", q, scripts[len(scripts)-1])
		if obs.Kind != kind {
			res.Trouble = fmt.Sprintf("%s: reached %s handler instead of %s", where, obs.Kind, kind)
			return res
		}
		res.inc("behaviour_" + beh)
		res.inc("kind_" + kind.String())
		// the middleware never alters the response
		if fmt.Sprint(obs.Conn.Events) != fmt.Sprint(ref.Conn.Events) || string(obs.Conn.Body) != string(ref.Conn.Body) || fmt.Sprint(obs.Conn.H) != fmt.Sprint(ref.Conn.H) {
			res.fail("C20/response-altered", "%s: with the logger the connection saw %v %q %v, without it %v %q %v", where, obs.Conn.Events, obs.Conn.Body, obs.Conn.H, ref.Conn.Events, ref.Conn.Body, ref.Conn.H)
			break
		}
		if beh == "panic" && kind != model.KRedirect {
			if obs.Panic != pv {
				res.fail("C20/panic-altered", "%s: the panic value %v came out of ServeHTTP as %v", where, pv, obs.Panic)
				break
			}
			if len(capt.Records) != 0 {
				res.fail("C20/record-on-panic", "%s: %d record(s) emitted although the handler panicked", where, len(capt.Records))
				break
			}
			continue
		}
		if obs.Panic != nil {
			res.fail("C20/panic", "%s: ServeHTTP panicked: %v", where, obs.Panic)
			break
		}
		wantStatus0 := obs.Conn.Explicit
		if wantStatus0 == 0 {
			wantStatus0 = 200
		}
		if levelOf(wantStatus0) < capt.MinLevel {
			// below the handler's minimum level: nothing may arrive
			if len(capt.Records) != 0 {
				res.fail("C20/record-count", "%s: %d records emitted although the handler's minimum level is %s", where, len(capt.Records), capt.MinLevel)
				break
			}
			res.inc("records_below_handler_min_level")
			classes[levelOf(wantStatus0)] = true
			kinds[kind] = true
			continue
		}
		if len(capt.Records) != 1 {
			res.fail("C20/record-count", "%s: %d records emitted, expected exactly 1 (handler minimum level %s)", where, len(capt.Records), capt.MinLevel)
			break
		}
		if emittedBeforeReturn {
			res.fail("C20/record-early", "%s: the record was emitted before the handler returned", where)
			break
		}
		rec := capt.Records[0]
		wantStatus := obs.Conn.Explicit
		if wantStatus == 0 {
			wantStatus = 200
		}
		classes[levelOf(wantStatus)] = true
		kinds[kind] = true
		wantMsg := expectMsg(kind, r)
		if realIP && wantMsg != remoteMarker && wantMsg != "unknown" {
			wantMsg = realIPValue
		}
		if wantMsg == remoteMarker {
			wantMsg = remoteWant // the host part of RemoteAddr (net.SplitHostPort), as an IP address with its zone
			_ = remoteSeen
		}
		loc := obs.Conn.H.Get("Location")
		switch {
		case rec.Attrs["status"] != strconv.Itoa(wantStatus):
			res.fail("C20/status", "%s: record status=%s, the recorder forwarded %d", where, rec.Attrs["status"], wantStatus)
		case !hasAttrs(rec.Attrs, "status", "method", "host", "path"):
			res.fail("C20/request-attrs", "%s: the record does not carry status, method, host and path (an empty value is still a value): %v", where, rec.Attrs)
		case rec.Attrs["method"] != p.Method || rec.Attrs["host"] != p.Host || rec.Attrs["path"] != p.Path:
			res.fail("C20/request-attrs", "%s: record has method=%s host=%s path=%s", where, rec.Attrs["method"], rec.Attrs["host"], rec.Attrs["path"])
		case rec.Msg != wantMsg:
			res.fail("C20/message", "%s: record message %q, expected %q (global resolver %d, route resolver %d)", where, rec.Msg, wantMsg, globalRes, r.Resolver)
		case rec.Level != levelOf(wantStatus):
			res.fail("C20/level", "%s: status %d logged at %s, expected %s", where, wantStatus, rec.Level, levelOf(wantStatus))
		case levelOf(wantStatus) == slog.LevelDebug && loc != "" && rec.Attrs["location"] != loc:
			res.fail("C20/location", "%s: 3xx with Location %q logged location=%q", where, loc, rec.Attrs["location"])
		case (levelOf(wantStatus) != slog.LevelDebug || loc == "") && rec.Attrs["location"] != "":
			res.fail("C20/location", "%s: location attribute %q present for status %d / Location %q", where, rec.Attrs["location"], wantStatus, loc)
		}
	}
	// one run in four: the same question through fox's built-in log handler (Logger()), which writes to the process'
	// standard output and error - captured through a private scratch file. Some requests are huge (the handler pools its
	// render buffers up to a size); every request still gets exactly one record, about itself.
	if !res.failed() && src.Intn("builtinloghandler", 4) == 3 {
		res.inc("runs_with_builtin_log_handler")
		rb, err := fox.New(fox.WithMiddleware(fox.Logger()))
		var status int
		// (verbs of 1 to 14 bytes: the handler lays its columns out around the usual 3-7)
		bverbs := []string{"GET", "GET", "DELETE", "OPTIONS", "PROPFIND", "VERSIONCONTROL", "X"}
		for _, verb := range bverbs[1:] {
			if err == nil {
				_, err = rb.Handle(verb, "/*{any}", func(c fox.Context) {
					if status >= 300 && status < 400 {
						c.SetHeader("Location", "/elsewhere/"+c.Param("any")[:6])
					}
					c.Writer().WriteHeader(status)
				})
			}
		}
		if err != nil {
			res.Trouble = "built-in handler router: " + err.Error()
			return res
		}
		nb := 3 + src.Intn("nbuiltin", 4)
		for q := 0; q < nb && !res.failed(); q++ {
			status = sim.Pick(src, "bstatus", []int{200, 204, 302, 404, 500})
			pad := sim.Pick(src, "bpad", []int{0, 0, 100, 17000, 70000})
			tok := fmt.Sprintf("btok%dx", q)
			bm := sim.Pick(src, "bverb", bverbs)
			bp := world.Probe{Method: bm, Host: "sim.invalid", Path: "/" + tok + "/" + strings.Repeat("p", pad)}
			if pad > 0 && src.Intn("padinhost", 2) == 1 {
				// the huge attribute is the Host (any attribute may be the one that outgrows a buffer; the ones after it
				// still belong to the record)
				bp = world.Probe{Method: bm, Host: strings.Repeat("h", pad) + ".sim.invalid", Path: "/" + tok + "/"}
			}
			conn := world.NewConn()
			var escaped any
			out, cerr := world.CaptureStderr(func() {
				defer func() { escaped = recover() }()
				rb.ServeHTTP(conn, world.NewRequest(bp.Method, bp.Host, bp.Path, "", "", nil))
			})
			if cerr != nil {
				res.Trouble = "capturing standard output: " + cerr.Error()
				return res
			}
			res.Checks++
			text := world.StripANSI(out)
			squeezed := strings.ReplaceAll(text, " ", "") // the handler pads its columns
			where := fmt.Sprintf("built-in log handler, request %d (%s /%s/ + %d bytes -> %d)", q, bm, tok, pad, status)
			switch {
			case escaped != nil:
				res.fail("C20/panic", "%s: ServeHTTP panicked: %v", where, escaped)
			case strings.Count(text, "[FOX]") != 1:
				res.fail("C20/record-count", "%s: %d records written, expected exactly 1 (%d bytes of output)", where, strings.Count(text, "[FOX]"), len(text))
			case !strings.Contains(text, tok) || !strings.Contains(squeezed, fmt.Sprintf("status=%dmethod=%shost=%spath=%s", status, bm, bp.Host, bp.Path)):
				res.fail("C20/request-attrs", "%s: the record lacks the request's own status, method, host or path: %.300q", where, text)
			case status >= 300 && status < 400 && !strings.Contains(squeezed, "location=/elsewhere/"+tok[:5]):
				res.fail("C20/location", "%s: the 3xx record does not carry the Location header: %.200q ... %.200q", where, text, text[max(0, len(text)-200):])
			default:
				for o := 0; o < q; o++ {
					if strings.Contains(text, fmt.Sprintf("btok%dx", o)) {
						res.fail("C20/record-count", "%s: the output also carries the record of request %d", where, o)
						break
					}
				}
			}
		}
	}
	capt.OnRecord = nil
	// overlapping requests through the same wrapped handlers: 2-3 tasks under the seeded scheduler, yields inside the
	// handlers and inside the log handler's Enabled (i.e. between the middleware building its attributes and slog copying
	// them); every request must get its own record
	if !res.failed() {
		s := sim.NewSched(src)
		drawPolicy(src, s)
		capt.Records = nil
		capt.OnEnabled = func() { s.Yield(sim.PtUser) }
		var want []string
		ntasks := 2 + src.Intn("logtasks", 2)
		for t := 0; t < ntasks; t++ {
			t := t
			nreq := 1 + src.Intn("logreqs", 3)
			type creq struct {
				p      world.Probe
				status int
			}
			var reqs []creq
			for q := 0; q < nreq; q++ {
				ri := src.Intn("route", len(routes))
				st := sim.Pick(src, "status", []int{200, 201, 302, 404, 500})
				pr := world.Probe{Method: "GET", Host: fmt.Sprintf("h%d-%d.invalid", t, q), Path: fmt.Sprintf("/l%d/c%d-%d", ri, t, q)}
				reqs = append(reqs, creq{pr, st})
				if levelOf(st) >= capt.MinLevel {
					want = append(want, fmt.Sprintf("%s %s status=%d method=GET host=%s path=%s", levelOf(st), strings.Replace(expectMsg(model.KRoute, routes[ri]), remoteMarker, "192.0.2.1", 1), st, pr.Host, pr.Path))
				}
			}
			s.Go(fmt.Sprintf("client%d", t), func(*sim.Task) {
				for _, rq := range reqs {
					rq := rq
					log := &world.ReqLog{Inner: func(c fox.Context, h *world.Hit) {
						s.Yield(sim.PtHandler)
						c.Writer().WriteHeader(rq.status)
						s.Yield(sim.PtHandler)
					}}
					w.R.ServeHTTP(world.NewConn(), world.NewRequest(rq.p.Method, rq.p.Host, rq.p.Path, "", "", log))
					s.Yield(sim.PtUser)
				}
			})
		}
		out := s.Run()
		capt.OnEnabled = nil
		res.Steps += s.Steps
		res.add("context_switches", s.Switches)
		if out.Kind != sim.Done {
			res.Leaked = s.Leaked()
			res.fail("C20/concurrent", "overlapping requests: scheduler ended with %s %s", out.Kind, out.Detail)
			return res
		}
		for _, tk := range s.Tasks {
			if tk.Panic != nil {
				res.Stack = tk.PanicStack
				res.fail("C20/panic", "overlapping requests: task %s panicked: %v", tk.Name, tk.Panic)
				return res
			}
		}
		var got []string
		for _, rec := range capt.Records {
			got = append(got, fmt.Sprintf("%s %s status=%s method=%s host=%s path=%s", rec.Level, rec.Msg, rec.Attrs["status"], rec.Attrs["method"], rec.Attrs["host"], rec.Attrs["path"]))
		}
		sort.Strings(got)
		sort.Strings(want)
		res.Checks++
		res.add("overlapping_requests", len(want))
		if d := world.DiffLines(got, want); d != "" {
			res.fail("C20/concurrent", "overlapping requests through the same logger: the records are not one per request with that request's data: %s", d)
			return res
		}
	}
	res.Case["requests"] = scripts
	res.Nontrivial = len(classes) >= 3 && len(kinds) >= 2
	res.CaseKey = hashStrings(append([]string{fmt.Sprint(globalRes), fmt.Sprint(routes), failIP, capt.MinLevel.String(), fmt.Sprint(lateLevel)}, scripts...)...)
	res.Hash = hashStrings(fmt.Sprint(res.Checks), fmt.Sprint(scripts))
	res.Steps = len(scripts)
	return res
}

var _ = http.StatusOK
