package props

import (
	"errors"
	"fmt"
	"sort"
	"strings"

	"github.com/tigerwill90/fox"

	"verif/harness/model"
	"verif/harness/sim"
	"verif/harness/world"
)

// WOp is an abstract write operation. It names pool indices, not live routes, so programs stay meaningful when
// steps are deleted during shrinking.
type WOp struct {
	Kind    string // handle handleroute update updateroute delete truncate
	Method  string
	Pat     int // pool index
	Tag     int
	Opt     world.RouteOpt
	Bad     string   // "" | pattern | nil | method
	BadPat  string   // malformed pattern text
	Same    bool     // handleroute: pass the very *Route registered under (method, pattern), if there is one, instead of a new one
	Methods []string // truncate
}

func (o WOp) String() string {
	switch {
	case o.Kind == "truncate":
		return fmt.Sprintf("truncate(%s)", strings.Join(o.Methods, ","))
	case o.Bad != "":
		return fmt.Sprintf("%s(%s,#%d bad=%s %q)", o.Kind, o.Method, o.Pat, o.Bad, o.BadPat)
	}
	s := fmt.Sprintf("%s(%s,#%d tag=%d", o.Kind, o.Method, o.Pat, o.Tag)
	if o.Opt.TS != 0 || len(o.Opt.MW) > 0 {
		s += fmt.Sprintf(" ts=%d mw=%v", o.Opt.TS, o.Opt.MW)
	}
	if o.Same {
		s += " registered-object"
	}
	return s + ")"
}

// malformed patterns: each is outside the documented grammar.
var malformed = []string{"", "a", "a.b", "/{", "/{}", "/*{}", "/a{x}b", "/{x}{y}", "/*{x}/*{y}", "a.*{x}/", ".a/", "a..b/", "-a/", "a-/", "/a/{x", "/a/*", "/a/*{x", "a.b-/x", "/{x}*{y}", "/a/{x}/*{y}/*{z}", "1.2/",
	// a '*' that is not followed by '{' opens no wildcard
	"/a/*xb}", "/*ab}", "/a/*xb}/c", "/a/b*xc}"}

// WOut is the observable result of a write operation.
type WOut struct {
	Class    string   // ok exist notfound conflict invalid readonly ...
	Conflict []string // sorted Matched list
	Tag      int      // returned route's tag (handle/update: new route, delete: removed route); -1 none
}

func (o WOut) String() string {
	s := o.Class
	if o.Class == "conflict" {
		s += "[" + strings.Join(o.Conflict, ",") + "]"
	}
	if o.Tag != -1 {
		s += fmt.Sprintf("#%d", o.Tag)
	}
	return s
}

// genHint lets a generator bias operations with what it knows at generation time (operations stay plain data: the
// program is still a function of the choice list alone).
type genHint struct {
	set        *model.Set // predicted registered set at this point (nil: no bias)
	last       int        // pool index touched by the previous operation (-1: none)
	lastMethod string
}

// related returns the pool indices whose pattern is a proper prefix or extension of pool[i] (same tree branch).
func related(pool []*model.Pattern, i int) []int {
	var out []int
	for j, p := range pool {
		if j != i && (strings.HasPrefix(p.Raw, pool[i].Raw) || strings.HasPrefix(pool[i].Raw, p.Raw)) {
			out = append(out, j)
		}
	}
	return out
}

// genWOp draws one write operation over the pool. tag must be unique for the run.
func genWOp(s sim.Source, pool []*model.Pattern, methods []string, tag int, allowTrunc bool, badRate int) WOp {
	return genWOpHint(s, pool, methods, tag, allowTrunc, badRate, genHint{last: -1})
}

func genWOpHint(s sim.Source, pool []*model.Pattern, methods []string, tag int, allowTrunc bool, badRate int, h genHint) WOp {
	op := WOp{Method: sim.Pick(s, "m", methods), Pat: s.Intn("pat", len(pool)), Tag: tag}
	if h.last >= 0 {
		// half of the time stay on the branch of the previous operation (parent/child nodes of one path)
		if rel := related(pool, h.last); len(rel) > 0 && s.Intn("related", 2) == 1 {
			op.Pat = rel[s.Intn("relpick", len(rel))]
			if model.ValidMethod(h.lastMethod) && s.Intn("samemethod", 4) != 0 {
				op.Method = h.lastMethod // same per-method tree
			}
		}
	}
	k := s.Intn("wkind", 20)
	if h.set != nil {
		// bias the kind with what is (predicted to be) registered: mostly effective operations
		present := h.set.Get(op.Method, pool[op.Pat].Raw) != nil
		if !present {
			// prefer a method under which the pattern is registered, if any
			for _, m := range methods {
				if h.set.Get(m, pool[op.Pat].Raw) != nil && s.Intn("usemethod", 2) == 1 {
					op.Method, present = m, true
					break
				}
			}
		}
		lexOdds := 1 // out of 5
		for _, p := range pool {
			if p.Raw == "/s/k" {
				lexOdds = 3 // pools of the sibling shape are mostly registered in order
			}
		}
		if s.Intn("lexicalorder", 5) < lexOdds {
			// routes are often registered in lexical order: the next operation registers a pool pattern that sorts
			// after everything registered under the method (a new last edge somewhere along the rightmost branch)
			// (under the method that has most routes so far: one tree grows in order)
			cnt := map[string]int{}
			for _, rt := range h.set.Routes() {
				cnt[rt.Method]++
			}
			for _, m := range methods {
				if cnt[m] > cnt[op.Method] {
					op.Method = m
				}
			}
			last := ""
			for _, rt := range h.set.Routes() {
				if rt.Method == op.Method && rt.Pattern > last {
					last = rt.Pattern
				}
			}
			var after []int
			for i, p := range pool {
				if p.Raw > last {
					after = append(after, i)
				}
			}
			if len(after) > 0 {
				op.Pat, present = after[s.Intn("lexicalnext", len(after))], false
			}
		}
		r := s.Intn("biased", 20)
		switch {
		case present && r < 9:
			k = 9 // update
		case present && r < 15:
			k = 13 // delete
		case present:
			k = sim.Pick(s, "existsvia", []int{0, 7}) // handle / handleroute (exists)
		case r < 15:
			k = 0 // handle
		case r < 17:
			k = 9
		default:
			k = 13
		}
		if allowTrunc && s.Intn("trunc", 16) == 15 {
			k = 19
		}
	}
	switch {
	case k < 7:
		op.Kind = "handle"
	case k < 9:
		op.Kind = "handleroute"
		op.Same = s.Intn("sameobject", 3) == 2
	case k < 12:
		op.Kind = "update"
	case k < 13:
		op.Kind = "updateroute"
	case k < 19 || !allowTrunc:
		op.Kind = "delete"
	default:
		op.Kind = "truncate"
		switch s.Intn("truncsel", 3) {
		case 0: // all
		case 1:
			op.Methods = []string{sim.Pick(s, "tm", methods)}
		default:
			op.Methods = []string{sim.Pick(s, "tm", methods), sim.Pick(s, "tm", methods)}
		}
		return op
	}
	op.Opt.TS = sim.Pick(s, "ropt", []int{0, 0, 0, 1, 2, 3, 4, 5, 6, 7})
	if badRate > 0 && s.Intn("bad", 100) < badRate {
		switch s.Intn("badkind", 4) {
		case 0, 1:
			op.Bad = "pattern"
			op.BadPat = sim.Pick(s, "badpat", malformed)
		case 2:
			op.Bad = "nil"
		default:
			op.Bad = "method"
			op.Method = sim.Pick(s, "badm", []string{"", "get", "G3T"})
			if op.Kind != "handle" && op.Kind != "handleroute" {
				op.Method = ""
			}
		}
	}
	return op
}

// applyModel executes op on the model set.
func applyModel(set *model.Set, cfg world.Cfg, pool []*model.Pattern, op WOp) WOut {
	if op.Kind == "truncate" {
		set.Truncate(op.Methods...)
		return WOut{Class: "ok", Tag: -1}
	}
	if op.Bad == "nil" && op.Kind != "delete" {
		return WOut{Class: "invalid", Tag: -1}
	}
	if op.Bad == "method" {
		return WOut{Class: "invalid", Tag: -1}
	}
	var pat *model.Pattern
	if op.Bad == "pattern" {
		p, err := model.Parse(op.BadPat)
		if err != nil {
			return WOut{Class: "invalid", Tag: -1}
		}
		pat = p
	} else {
		pat = pool[op.Pat]
	}
	// configured limits: a pattern with more wildcards than WithMaxRouteParams allows, or a wildcard name longer than
	// WithMaxRouteParamKeyBytes, is an invalid route for every operation that takes a pattern
	if cfg.MaxParams > 0 || cfg.MaxKeyBytes > 0 {
		n := 0
		for _, tk := range pat.Toks {
			if tk.Kind == model.TStatic {
				continue
			}
			n++
			if cfg.MaxKeyBytes > 0 && len(tk.Name) > cfg.MaxKeyBytes {
				return WOut{Class: "invalid", Tag: -1}
			}
		}
		if cfg.MaxParams > 0 && n > cfg.MaxParams {
			return WOut{Class: "invalid", Tag: -1}
		}
	}
	switch op.Kind {
	case "handle", "handleroute":
		r := world.ModelRoute(cfg, op.Method, pat, op.Tag, op.Opt)
		err := set.Insert(r)
		var ce *model.ConflictError
		if errors.As(err, &ce) {
			return WOut{Class: "conflict", Conflict: ce.Matched, Tag: -1}
		}
		if err != nil {
			return WOut{Class: world.ModelErrClass(err), Tag: -1}
		}
		return WOut{Class: "ok", Tag: op.Tag}
	case "update", "updateroute":
		r := world.ModelRoute(cfg, op.Method, pat, op.Tag, op.Opt)
		if err := set.Update(r); err != nil {
			return WOut{Class: world.ModelErrClass(err), Tag: -1}
		}
		return WOut{Class: "ok", Tag: op.Tag}
	case "delete":
		r, err := set.Delete(op.Method, pat.Raw)
		if err != nil {
			return WOut{Class: world.ModelErrClass(err), Tag: -1}
		}
		return WOut{Class: "ok", Tag: r.Tag}
	}
	panic("unknown op " + op.Kind)
}

// Truncater is implemented by *fox.Txn only.
type Truncater interface{ Truncate(methods ...string) error }

// applyFox executes op on the real router or transaction.
func applyFox(w *world.World, wr world.Writer, pool []*model.Pattern, op WOp) WOut {
	if op.Kind == "truncate" {
		err := wr.(Truncater).Truncate(op.Methods...)
		return WOut{Class: world.ErrClass(err), Tag: -1}
	}
	pattern := ""
	if op.Bad == "pattern" {
		pattern = op.BadPat
	} else {
		pattern = pool[op.Pat].Raw
	}
	var h fox.HandlerFunc = world.Handler(op.Tag)
	if op.Bad == "nil" {
		h = nil
	}
	opts := world.FoxOpts(op.Tag, op.Opt)
	out := WOut{Tag: -1}
	var err error
	var rt *fox.Route
	switch op.Kind {
	case "handle":
		rt, err = wr.Handle(op.Method, pattern, h, opts...)
	case "update":
		rt, err = wr.Update(op.Method, pattern, h, opts...)
	case "handleroute", "updateroute":
		var nr *fox.Route
		if op.Bad != "nil" {
			nr, err = w.R.NewRoute(pattern, h, opts...)
		}
		if op.Same && op.Kind == "handleroute" && err == nil && nr != nil {
			// the object that is already registered there, handed in again: a duplicate like any other
			if rd, ok := wr.(interface{ Route(method, pattern string) *fox.Route }); ok {
				if reg := rd.Route(op.Method, pattern); reg != nil {
					nr = reg
				}
			}
		}
		if err == nil {
			if op.Kind == "handleroute" {
				err = wr.HandleRoute(op.Method, nr)
			} else {
				err = wr.UpdateRoute(op.Method, nr)
			}
			if err == nil {
				rt = nr
			}
		}
	case "delete":
		rt, err = wr.Delete(op.Method, pattern)
	}
	out.Class = world.ErrClass(err)
	var ce *fox.RouteConflictError
	if errors.As(err, &ce) {
		out.Conflict = append([]string(nil), ce.Matched...)
		sort.Strings(out.Conflict)
	}
	if err == nil {
		out.Tag = world.TagOf(rt)
	} else if rt != nil {
		out.Class += "+route"
	}
	return out
}

func sameOut(a, b WOut) bool {
	if a.Class != b.Class || a.Tag != b.Tag || len(a.Conflict) != len(b.Conflict) {
		return false
	}
	for i := range a.Conflict {
		if a.Conflict[i] != b.Conflict[i] {
			return false
		}
	}
	return true
}

func poolStrings(pool []*model.Pattern) []string {
	out := make([]string, len(pool))
	for i, p := range pool {
		out[i] = p.Raw
	}
	return out
}

// prefixesOf derives a few iterator prefixes from the pool.
func prefixesOf(s sim.Source, pool []*model.Pattern) []string {
	out := []string{"", "/"}
	for i := 0; i < 3 && len(pool) > 0; i++ {
		p := pool[s.Intn("pfxpat", len(pool))].Raw
		out = append(out, p[:s.Intn("pfxlen", len(p)+1)])
	}
	return out
}

// prefillFanout registers every fan-out sibling of the pool (patterns "/f/?x") for GET so that one node really has more
// than 50 children (the linear/binary search switch), and every element of the deep chain (patterns "/~d...") so that
// one branch really is deeper than 25 nodes.
func prefillFanout(src sim.Source, w *world.World, set *model.Set, cfg world.Cfg, pool []*model.Pattern, nextTag *int) (string, bool) {
	n := 0
	reg := func(i int) (string, bool) {
		*nextTag++
		op := WOp{Kind: "handle", Method: "GET", Pat: i, Tag: *nextTag}
		want := applyModel(set, cfg, pool, op)
		out := applyFox(w, w.R, pool, op)
		if !sameOut(out, want) {
			return fmt.Sprintf("shape prefill %v returned %v, model %v", op, out, want), false
		}
		n++
		return "", true
	}
	fan := false
	for i, p := range pool {
		isFan := len(p.Raw) == 5 && strings.HasPrefix(p.Raw, "/f/") && p.Raw[4] == 'x'
		fan = fan || isFan
		if isFan || strings.HasPrefix(p.Raw, "/~d") {
			if msg, ok := reg(i); !ok {
				return msg, false
			}
		}
	}
	// the two routes with more than 256 parameters
	for _, raw := range world.ManyParamPatterns() {
		for i, p := range pool {
			if p.Raw == raw {
				if msg, ok := reg(i); !ok {
					return msg, false
				}
			}
		}
	}
	// the ladder, in a drawn registration order (deepest first, shallowest first, or as the pool has it)
	var ladder []int
	for _, raw := range world.LadderPatterns {
		for i, p := range pool {
			if p.Raw == raw {
				ladder = append(ladder, i)
			}
		}
	}
	if len(ladder) == len(world.LadderPatterns) {
		switch src.Intn("ladderorder", 3) {
		case 1:
			for i, j := 0, len(ladder)-1; i < j; i, j = i+1, j-1 {
				ladder[i], ladder[j] = ladder[j], ladder[i]
			}
		case 2:
			for i := len(ladder) - 1; i > 0; i-- {
				j := src.Intn("laddershuffle", i+1)
				ladder[i], ladder[j] = ladder[j], ladder[i]
			}
		}
		for _, i := range ladder {
			if msg, ok := reg(i); !ok {
				return msg, false
			}
		}
	}
	if fan {
		// writes through a wildcard edge of the wide node (its edges are found by binary search above 50 children)
		var later []string
		switch src.Intn("fanwild", 4) {
		case 1:
			later = []string{"/f/*{q}", "/f/*{q}/t"}
		case 2:
			later = []string{"/f/{p}", "/f/{p}/t"}
		case 3:
			later = []string{"/f/{p}", "/f/*{q}", "/f/*{q}/t", "/f/{p}/t"}
		}
		later = append(later, world.HighByteSiblings...)
		for _, raw := range later {
			for i, p := range pool {
				if p.Raw == raw {
					if msg, ok := reg(i); !ok {
						return msg, false
					}
				}
			}
		}
	}
	return fmt.Sprintf("<shape prefill: %d routes for GET (siblings and wildcard children under /f/, the deep chain under /~, the static/param/catch-all ladder)>", n), n > 0
}

// entryPointsAgree checks, without any model, that Lookup and Reverse of one reader (the router, a transaction with
// uncommitted writes, a snapshot) select the same route with the same trailing-slash flag for each probe, and that the
// parameters Lookup reports fit the selected pattern and the request.
func entryPointsAgree(rd world.Reader, probes []world.Probe) string {
	for _, p := range probes {
		lk := world.ObsLookup(rd, p)
		rv := world.ObsReverse(rd, p)
		if lk.Tag != rv.Tag || lk.TSR != rv.TSR {
			return fmt.Sprintf("%s %s%s: Lookup selects %s, Reverse selects %s", p.Method, p.Host, p.Path, lk, rv)
		}
		if lk.Tag != -1 {
			if d := paramsFit(lk, p); d != "" {
				return fmt.Sprintf("%s %s%s: Lookup selects %s with parameters %v: %s", p.Method, p.Host, p.Path, lk, lk.Params, d)
			}
		}
	}
	return ""
}

// lookupAgreesWithSet compares the route an eager Lookup of rd selects with the reference matcher over set, for the
// unambiguous answers only: a direct match must be found as such, and nothing may be found where neither the path nor
// its slash-adjusted form matches (slash-adjusted candidates are C08's business).
func lookupAgreesWithSet(rd world.Reader, probes []world.Probe, set *model.Set) string {
	for _, p := range probes {
		a := set.Match(p.Method, p.Host, p.Path, model.MatchOpts{})
		b := set.Match(p.Method, p.Host, p.Path, model.MatchOpts{AllowLeadingSlashCapture: true})
		if fmtMatch(a) != fmtMatch(b) {
			continue
		}
		lk := world.ObsLookup(rd, p)
		switch {
		case a.Route != nil && !a.TSR && (lk.Tag != a.Route.Tag || lk.TSR):
			return fmt.Sprintf("%s %s%s: Lookup selects %s, the routes of this view give %s", p.Method, p.Host, p.Path, lk, fmtMatch(a))
		case a.Route == nil && lk.Tag != -1:
			return fmt.Sprintf("%s %s%s: Lookup selects %s, no route of this view matches", p.Method, p.Host, p.Path, lk)
		}
	}
	return ""
}

// paramsFit checks, without any model, that the parameters an eager lookup reports are those of the selected pattern:
// one per wildcard, same names in order, and - substituted into the pattern - they spell the request (its path with
// the final slash toggled when the answer is a trailing-slash one; hostnames compare without letter case).
func paramsFit(o world.RouteObs, p world.Probe) string {
	var sb strings.Builder
	pat, k := o.Pattern, 0
	for i := 0; i < len(pat); {
		j := i
		if pat[i] == '*' && i+1 < len(pat) && pat[i+1] == '{' {
			j = i + 1
		}
		if pat[j] != '{' {
			sb.WriteByte(pat[i])
			i++
			continue
		}
		end := strings.IndexByte(pat[j:], '}')
		if end < 0 {
			return "" // not a pattern this parser understands
		}
		name := pat[j+1 : j+end]
		if k >= len(o.Params) {
			return fmt.Sprintf("wildcard {%s} has no parameter", name)
		}
		if o.Params[k].Key != name {
			return fmt.Sprintf("parameter %d is named %q, the pattern's wildcard is {%s}", k, o.Params[k].Key, name)
		}
		sb.WriteString(o.Params[k].Value)
		k++
		i = j + end + 1
	}
	if k != len(o.Params) {
		return fmt.Sprintf("%d parameters for %d wildcards", len(o.Params), k)
	}
	if strings.ContainsAny(p.Host, ":") || strings.HasSuffix(p.Host, ".") {
		return "" // port and root dot are stripped before matching: C09's business
	}
	path := p.Path
	if o.TSR {
		if strings.HasSuffix(path, "/") {
			path = path[:len(path)-1]
		} else {
			path += "/"
		}
	}
	got := sb.String()
	if strings.HasPrefix(o.Pattern, "/") {
		if got != path {
			return fmt.Sprintf("substituted into the pattern they spell %q, the request path is %q", got, path)
		}
		return ""
	}
	i := strings.IndexByte(got, '/')
	if i < 0 || !strings.EqualFold(got[:i], p.Host) || got[i:] != path {
		return fmt.Sprintf("substituted into the pattern they spell %q, the request is %q", got, p.Host+path)
	}
	return ""
}

func genProbes(src sim.Source, pool []*model.Pattern, methods []string, n int) []world.Probe {
	var out []world.Probe
	for i := 0; i < n; i++ {
		out = append(out, world.GenProbe(src, pool, methods))
	}
	return out
}
