package props

import (
	"io"
	"errors"
	"fmt"
	"net/http"
	"strings"
	"time"

	"github.com/tigerwill90/fox"

	"verif/harness/sim"
	"verif/harness/world"
)

func init() {
	register(&Prop{
		ID: "C14", Level: "fault_enumeration",
		Rule: "one case = a generated history of 1-7 calls on the Context's ResponseWriter from {WriteHeader (final, informational 1xx, 101, repeated), Write, WriteString, ReadFrom, FlushError, Push, SetReadDeadline, SetWriteDeadline, EnableFullDuplex, Hijack, Context.String/Blob/Stream/Redirect} executed by a real route handler behind ServeHTTP (the request carries a drawn Content-Type of its own or none) over a simulated connection whose capability set is drawn from {ReaderFrom, Flusher, FlushError (alone or next to Flusher; failing in one run in three), Hijacker+Pusher+deadlines+full duplex}; for each history the byte position at which the connection starts failing is enumerated over every byte boundary (and no failure), and the failure position of the ReadFrom/Stream source likewise; after every call Status/Size/Written are compared with the connection's own log (first final status received, bytes accepted, final header or byte received), return values with the bytes accepted during the call, and the whole run is repeated with ReaderFrom toggled (answers must not depend on the fast path); after every history a plain request is served from the recycled context and must start clean and reach the connection (201, two bytes). One run in four adds a single Write/WriteString/ReadFrom/Stream/Blob/String call carrying 32768-100000 bytes, with the connection failing at four positions. Finally 2-3 tasks stream distinct bytes (Context.Stream / ReadFrom from plain chunked readers) into connections that yield when a write arrives: every connection receives exactly its own bytes in order. Connection invariants: at most one final header, none after body bytes, bytes in order. Non-trivial: the history wrote body bytes and at least one enumerated fault fired inside it; distinct = hash of (history, capabilities).",
		Run:  runC14, Quick: 12000, Thorough: 2000000,
		Real:   []string{"recorder ResponseWriter (response_writer.go)", "Context helpers String/Blob/Stream/Redirect", "ServeHTTP dispatch and context pooling"},
		Stub:   []string{"net/http connection: simulated connection with injected short writes and errors", "io.Reader sources with injected failures"},
		Domain: []string{"histories of <= 7 calls, <= 14 body bytes in total (every byte boundary is enumerated)", "Hijack only as the last call of a history"},
	})
}

type wStep struct {
	Kind     string
	Code     int
	Data     string
	Together bool // source returns its last bytes together with the error
	Chunk    int
	URL      string
	Preset   int    // blob/stream: 1 = another Content-Type is already set when the helper is called; 2 = several values are set, the first equal to the given type
	Format   string // string: called as String(code, Format) without values; Data holds what the format stands for
	FailOnly bool   // hijack with FailCap: the refused attempt is the only one - the connection was NOT taken over, the writer goes on as before
	FailCap  bool   // capability steps: the connection's first answer is an error (passed through), the call is then repeated
}

// shortData abbreviates a large payload in descriptions.
func shortData(d string) string {
	if len(d) > 48 {
		return fmt.Sprintf("%s...(%d bytes)", d[:24], len(d))
	}
	return d
}

func (s wStep) String() string {
	switch s.Kind {
	case "writeheader":
		return fmt.Sprintf("WriteHeader(%d)", s.Code)
	case "write", "writestring", "readfrom":
		return fmt.Sprintf("%s(%q)", s.Kind, shortData(s.Data))
	case "string", "blob", "stream":
		if s.Format != "" {
			return fmt.Sprintf("c.String(%d,%q) without values", s.Code, s.Format)
		}
		if s.Preset > 0 {
			return fmt.Sprintf("c.%s(%d,%q) with Content-Type already set (kind %d)", s.Kind, s.Code, s.Data, s.Preset)
		}
		return fmt.Sprintf("c.%s(%d,%q)", s.Kind, s.Code, shortData(s.Data))
	case "redirect":
		return fmt.Sprintf("c.Redirect(%d,%q)", s.Code, s.URL)
	}
	return s.Kind
}

var c14Codes = []int{200, 201, 204, 404, 500, 100, 103, 101, 199, 301}

func genWSteps(src sim.Source) []wStep {
	n := 1 + src.Intn("nsteps", 7)
	var out []wStep
	budget := 14
	data := func() string {
		l := src.Intn("datalen", 6)
		if l > budget {
			l = budget
		}
		budget -= l
		return strings.Repeat("x", l)
	}
	for i := 0; i < n; i++ {
		k := src.Intn("stepkind", 20)
		switch {
		case k < 4:
			out = append(out, wStep{Kind: "writeheader", Code: sim.Pick(src, "code", c14Codes)})
		case k < 7:
			out = append(out, wStep{Kind: "write", Data: data()})
		case k < 9:
			out = append(out, wStep{Kind: "writestring", Data: data()})
		case k < 12:
			out = append(out, wStep{Kind: "readfrom", Data: data(), Together: sim.Bool(src, "together"), Chunk: src.Intn("chunk", 4)})
		case k < 13:
			out = append(out, wStep{Kind: "flush"})
		case k < 14:
			out = append(out, wStep{Kind: sim.Pick(src, "cap", []string{"push", "rdeadline", "wdeadline", "fullduplex"}), FailCap: src.Intn("failcap", 4) == 3})
		case k < 15:
			st := wStep{Kind: "string", Code: sim.Pick(src, "code", c14Codes[:5]), Data: data()}
			if src.Intn("literalformat", 3) == 0 {
				// a format is a format even without values: %% stands for one percent sign
				st.Format = sim.Pick(src, "format", []string{"100%%", "a%%b%%c", "%%", "plain"})
				st.Data = fmt.Sprintf(st.Format)
			}
			out = append(out, st)
		case k < 16:
			out = append(out, wStep{Kind: "blob", Code: sim.Pick(src, "code", c14Codes[:5]), Data: data(), Preset: sim.Pick(src, "presetct", []int{0, 0, 0, 1, 2})})
		case k < 17:
			out = append(out, wStep{Kind: "stream", Code: sim.Pick(src, "code", []int{200, 201, 204, 404, 500, 304}), Data: data(), Together: sim.Bool(src, "together"), Chunk: src.Intn("chunk", 4), Preset: sim.Pick(src, "presetct", []int{0, 0, 0, 1, 2})})
		case k < 18:
			out = append(out, wStep{Kind: "redirect", Code: sim.Pick(src, "rcode", []int{299, 300, 301, 302, 303, 304, 305, 306, 307, 308, 309, 310, 399, 200, 3000}), URL: "http://sim.invalid/next"})
		case k < 19 && i == n-1:
			hs := wStep{Kind: "hijack", FailCap: src.Intn("failcap", 3) == 2}
			hs.FailOnly = hs.FailCap && sim.Bool(src, "failonly")
			out = append(out, hs)
			if hs.FailOnly {
				// the handler falls back to an ordinary answer after the refused take-over
				out = append(out, wStep{Kind: "writeheader", Code: 500}, wStep{Kind: "write", Data: data()})
			}
		default:
			out = append(out, wStep{Kind: "write", Data: data()})
		}
	}
	return out
}

type triple struct {
	Status  int
	Size    int
	Written bool
}

// flushFails is the per-run flush fault (set by runC14 before the enumeration starts; one worker process runs one case
// at a time).
var flushFails bool

// runWHistory executes the history once. It returns the getter triples after each call and the first discrepancy.
func runWHistory(w *world.World, steps []wStep, caps world.Caps, reqCT string, connFail int, srcFail int, fired *int, zeroAccepted *bool) ([]triple, string) {
	conn := world.NewConn()
	conn.FailAfter = connFail
	if flushFails {
		conn.FlushErr = world.ErrInjected
	}
	var triples []triple
	var fail string
	handler := func(c fox.Context, _ *world.Hit) {
		wr := c.Writer()
		truth := func(after string) {
			t := triple{wr.Status(), wr.Size(), wr.Written()}
			triples = append(triples, t)
			if fail != "" {
				return
			}
			// the first final status the recorder forwarded (a header implied by the connection on a body write is
			// not something the recorder forwarded)
			wantStatus := conn.Explicit
			if wantStatus == 0 {
				wantStatus = 200
			}
			wantWritten := conn.Finals > 0 || len(conn.Body) > 0
			if t.Status != wantStatus || t.Size != len(conn.Body) || t.Written != wantWritten {
				fail = fmt.Sprintf("after %s: Status=%d Size=%d Written=%v, the connection received first final status %d, %d body bytes, final header or byte received=%v", after, t.Status, t.Size, t.Written, wantStatus, len(conn.Body), wantWritten)
			}
		}
		truth("handler entry")
		hijackedOK := false // a take-over succeeded: the recorder rightly refuses writes from then on
		for i, st := range steps {
			before := len(conn.Body)
			evBefore := len(conn.Events)
			name := fmt.Sprintf("call %d %s", i, st)
			checkN := func(n int, err error, data string, srcErr bool) {
				if fail != "" {
					return
				}
				got := len(conn.Body) - before
				if n != got {
					fail = fmt.Sprintf("%s returned n=%d, the connection accepted %d bytes", name, n, got)
					return
				}
				if string(conn.Body[before:]) != data[:got] {
					fail = fmt.Sprintf("%s: bytes forwarded out of order: %q is not a prefix of %q", name, conn.Body[before:], data)
					return
				}
				if err != nil && !srcErr && got == len(data) {
					// (every byte was taken, yet an error came back - fine for the caller to see, nothing lost)
				} else if err != nil && !srcErr && !hijackedOK && (conn.FailAfter < 0 || before+len(data) <= conn.FailAfter) {
					// every body byte is forwarded: a writer in front of a connection that takes bytes does not refuse them
					fail = fmt.Sprintf("%s: the call failed with %v although the connection was ready to accept these %d bytes (it received %d)", name, err, len(data), got)
					return
				}
				if got < len(data) && err == nil && !srcErr {
					fail = fmt.Sprintf("%s: only %d of %d bytes were accepted but no error was returned", name, got, len(data))
				}
			}
			switch st.Kind {
			case "writeheader":
				wr.WriteHeader(st.Code)
			case "write":
				n, err := wr.Write([]byte(st.Data))
				checkN(n, err, st.Data, false)
			case "writestring":
				n, err := wr.WriteString(st.Data)
				checkN(n, err, st.Data, false)
			case "readfrom", "stream":
				rd := &world.FaultyReader{Data: []byte(st.Data), FailAfter: srcFail, TogetherWithData: st.Together, Chunk: st.Chunk}
				if srcFail >= 0 && srcFail <= len(st.Data) {
					*fired++
				}
				if st.Kind == "readfrom" {
					headerBefore := conn.Finals > 0
					n, err := wr.ReadFrom(rd)
					if n == 0 && len(st.Data) > 0 && srcFail != 0 && !headerBefore {
						// the connection refused the very first byte of a ReadFrom on a writer that had sent no header yet:
						// the fallback path has forwarded the header by then, the fast path cannot know (not compared)
						*zeroAccepted = true
					}
					avail := st.Data
					if srcFail >= 0 && srcFail < len(avail) {
						avail = avail[:srcFail]
					}
					checkN(int(n), err, avail, srcFail >= 0 && srcFail <= len(st.Data))
					if fail == "" && srcFail >= 0 && srcFail <= len(st.Data) && err == nil {
						fail = fmt.Sprintf("%s: the source failed after %d bytes but ReadFrom returned no error", name, srcFail)
					}
				} else {
					firstFinal := conn.Finals == 0
					if st.Preset > 0 && firstFinal && before == 0 {
						presetContentType(c, st.Preset)
					}
					err := c.Stream(st.Code, "application/x-sim", rd)
					if fail == "" && firstFinal && before == 0 && conn.Explicit != st.Code {
						fail = fmt.Sprintf("%s on a fresh writer forwarded status %d", name, conn.Explicit)
					}
					if ct := strings.Join(conn.H.Values("Content-Type"), " | "); fail == "" && firstFinal && before == 0 && ct != "application/x-sim" {
						fail = fmt.Sprintf("%s on a fresh writer (preset content type: %v) sent Content-Type %q, it was given application/x-sim", name, st.Preset, ct)
					}
					// ... and exactly the bytes of the reader, whatever the status (a helper is not the place to decide
					// that a status has no body): everything the source delivered was offered to the connection
					avail := st.Data
					if srcFail >= 0 && srcFail < len(avail) {
						avail = avail[:srcFail]
					}
					if got := len(conn.Body) - before; fail == "" && (got > len(avail) || string(conn.Body[before:]) != avail[:got] || (got < len(avail) && err == nil)) {
						fail = fmt.Sprintf("%s (status %d): the source delivered %q, the connection received %q, error %v", name, st.Code, avail, conn.Body[before:], err)
					}
				}
			case "flush":
				err := wr.FlushError()
				if caps.FlushError && conn.FlushErr != nil {
					// the connection's FlushError fails: the failure must come back, whatever else the connection offers
					if !errors.Is(err, conn.FlushErr) {
						fail = fmt.Sprintf("%s: the connection's FlushError failed with %v, the recorder returned %v", name, conn.FlushErr, err)
					}
				} else if caps.Flusher || caps.FlushError {
					if err != nil {
						fail = fmt.Sprintf("%s: flush is offered by the connection but returned %v", name, err)
					} else if !hasEvent(conn, evBefore, "flush", "flusherror") {
						fail = fmt.Sprintf("%s: flush was not delegated", name)
					}
				} else if !errors.Is(err, http.ErrNotSupported) {
					fail = fmt.Sprintf("%s: flush is not offered, error %v does not match http.ErrNotSupported", name, err)
				}
			case "push", "rdeadline", "wdeadline", "fullduplex", "hijack":
				var err error
				offered := caps.Hijacker
				call := func() error {
					switch st.Kind {
					case "push":
						return wr.Push("/x", nil)
					case "rdeadline":
						return wr.SetReadDeadline(time.Time{})
					case "wdeadline":
						return wr.SetWriteDeadline(time.Time{})
					case "fullduplex":
						return wr.EnableFullDuplex()
					}
					_, _, e := wr.Hijack()
					return e
				}
				if st.FailCap && offered {
					// the connection refuses once: its answer comes back as it is, and the next call is delegated again
					conn.CapFail = 1
					if e := call(); e != world.ErrCap || !hasEvent(conn, evBefore, st.Kind) {
						fail = fmt.Sprintf("%s: the connection answered %v, the caller got %v (delegated=%v)", name, world.ErrCap, e, hasEvent(conn, evBefore, st.Kind))
					}
					evBefore = len(conn.Events)
					if st.Kind == "hijack" && st.FailOnly {
						// a refused take-over leaves everything as it was: the steps that follow are judged like any others
						break
					}
				}
				err = call()
				if fail != "" {
				} else if offered {
					if err != nil || !hasEvent(conn, evBefore, st.Kind) {
						fail = fmt.Sprintf("%s: capability offered by the connection, got error %v, delegated=%v", name, err, hasEvent(conn, evBefore, st.Kind))
					}
				} else if !errors.Is(err, http.ErrNotSupported) {
					fail = fmt.Sprintf("%s: capability not offered, error %v does not match http.ErrNotSupported", name, err)
				}
				if st.Kind == "hijack" {
					hijackedOK = true
					return // the recorder refuses writes afterwards; getters are no longer compared
				}
			case "string", "blob":
				fresh := conn.Finals == 0 && len(conn.Body) == 0
				var err error
				if st.Kind == "string" && st.Format != "" {
					err = c.String(st.Code, st.Format)
				} else if st.Kind == "string" {
					err = c.String(st.Code, "%s", st.Data)
				} else {
					if st.Preset > 0 && fresh {
						presetContentType(c, st.Preset)
					}
					err = c.Blob(st.Code, "application/x-sim", []byte(st.Data))
				}
				if fail == "" && fresh {
					wantCT := "application/x-sim"
					gotCT := strings.Join(conn.H.Values("Content-Type"), " | ")
					if st.Kind == "string" {
						// String is not given a content type: any text/plain type is accepted
						wantCT = "text/plain"
						if i := strings.IndexByte(gotCT, ';'); i >= 0 {
							gotCT = gotCT[:i]
						}
					}
					got := len(conn.Body) - before
					if conn.Explicit != st.Code || gotCT != wantCT || got > len(st.Data) || string(conn.Body[before:]) != st.Data[:got] || (got < len(st.Data) && err == nil) {
						fail = fmt.Sprintf("%s on a fresh writer sent status %d, content type %q, body %q (error %v)", name, conn.Explicit, conn.H.Get("Content-Type"), conn.Body[before:], err)
					}
				}
			case "redirect":
				fresh := conn.Finals == 0 && len(conn.Body) == 0
				err := c.Redirect(st.Code, st.URL)
				valid := st.Code >= 300 && st.Code <= 308
				if fail == "" {
					switch {
					case !valid && (!errors.Is(err, fox.ErrInvalidRedirectCode) || len(conn.Events) != evBefore):
						fail = fmt.Sprintf("%s: code outside 300-308 must be refused without sending anything (error %v, %d connection events)", name, err, len(conn.Events)-evBefore)
					case valid && err != nil:
						fail = fmt.Sprintf("%s returned %v", name, err)
					case valid && fresh && (conn.Explicit != st.Code || conn.H.Get("Location") != st.URL):
						fail = fmt.Sprintf("%s on a fresh writer sent status %d Location %q", name, conn.Status, conn.H.Get("Location"))
					}
				}
			}
			truth(name)
			for _, e := range conn.Events {
				if strings.HasPrefix(e.Kind, "decoy:") && fail == "" {
					fail = fmt.Sprintf("%s: %s was delegated past the underlying writer to the writer it wraps", name, strings.TrimPrefix(e.Kind, "decoy:"))
				}
			}
			if fail != "" {
				return
			}
		}
	}
	log := &world.ReqLog{Inner: handler}
	req := world.NewRequest("GET", "", "/w", "", "", log)
	if reqCT != "" {
		req.Header.Set("Content-Type", reqCT) // the request's own content type says nothing about the response's
	}
	w.R.ServeHTTP(conn.Wrap(caps), req)
	if fail == "" {
		if conn.Finals > 1 {
			fail = fmt.Sprintf("the connection received %d final status headers: %v", conn.Finals, conn.Events)
		} else if conn.HeaderAfterBody {
			fail = fmt.Sprintf("a final status header was forwarded after body bytes: %v", conn.Events)
		}
	}
	if connFail >= 0 && len(conn.Body) >= connFail {
		*fired++
	}
	if fail == "" {
		// the recorder is embedded in the pooled context: the next request served from it starts clean whatever this
		// history did to it (hijacked, failed, written twice)
		conn2 := world.NewConn()
		var after string
		log2 := &world.ReqLog{Inner: func(c fox.Context, _ *world.Hit) {
			wr := c.Writer()
			if wr.Status() != 200 || wr.Size() != 0 || wr.Written() {
				after = fmt.Sprintf("the next request starts with Status=%d Size=%d Written=%v", wr.Status(), wr.Size(), wr.Written())
				return
			}
			wr.WriteHeader(201)
			n, err := wr.Write([]byte("ok"))
			if n != 2 || err != nil || wr.Status() != 201 || wr.Size() != 2 || !wr.Written() {
				after = fmt.Sprintf("the next request's WriteHeader(201)+Write(\"ok\") returned (%d, %v) and reports Status=%d Size=%d Written=%v", n, err, wr.Status(), wr.Size(), wr.Written())
			}
		}}
		w.R.ServeHTTP(conn2.Wrap(caps), world.NewRequest("GET", "", "/w", "", "", log2))
		if after == "" && (conn2.Explicit != 201 || string(conn2.Body) != "ok") {
			after = fmt.Sprintf("the next request's response reached the connection as status %d body %q", conn2.Explicit, conn2.Body)
		}
		if after != "" {
			fail = "after this history, on the recycled context: " + after
		}
	}
	return triples, fail
}

func hasEvent(c *world.Conn, from int, kinds ...string) bool {
	for _, e := range c.Events[from:] {
		for _, k := range kinds {
			if e.Kind == k {
				return true
			}
		}
	}
	return false
}

func runC14(src sim.Source, o Opts) *Result {
	res := newResult()
	w, err := world.Build(world.Cfg{})
	if err != nil {
		res.Trouble = err.Error()
		return res
	}
	if _, err := w.R.Handle("GET", "/w", world.Handler(1)); err != nil {
		res.Trouble = err.Error()
		return res
	}
	steps := genWSteps(src)
	caps := world.NormCaps(world.Caps{ReaderFrom: sim.Bool(src, "rf"), Flusher: sim.Bool(src, "fl"), FlushError: sim.Bool(src, "fe"), Hijacker: sim.Bool(src, "group")})
	if !caps.ReaderFrom && !caps.Flusher && !caps.FlushError && !caps.Hijacker && src.Intn("unwrap", 2) == 1 {
		caps.Unwrap = true // offers nothing, wraps a writer offering everything (which must never be reached)
	}
	reqCT := sim.Pick(src, "reqct", []string{"", "", "application/json", "text/html; charset=utf-8"})
	flushFails = src.Intn("flushfails", 3) == 0 // fault: the connection's FlushError reports a failure
	total := 0
	srcLen := -1
	for _, s := range steps {
		total += len(s.Data)
		if (s.Kind == "readfrom" || s.Kind == "stream") && srcLen < 0 {
			srcLen = len(s.Data)
		}
	}
	var desc []string
	for _, s := range steps {
		desc = append(desc, s.String())
	}
	res.Case["history"] = desc
	res.Case["capabilities"] = fmt.Sprintf("%+v", caps)
	res.Case["request_content_type"] = reqCT
	res.Case["flush_fails"] = flushFails
	fired := 0
	wroteBody := total > 0
	// enumerate the connection's failure position over every byte boundary, and the source's
	for k := -1; k <= total && !res.failed(); k++ {
		srcFails := []int{-1}
		for j := 0; j <= srcLen; j++ {
			srcFails = append(srcFails, j)
		}
		for _, j := range srcFails {
			res.Checks++
			res.inc("enumerated_fault_positions")
			zero := false
			tr, fail := runWHistory(w, steps, caps, reqCT, k, j, &fired, &zero)
			if fail != "" {
				res.fail("C14/accounting", "history %v over %+v, connection fails after %d bytes, source fails after %d bytes: %s", desc, caps, k, j, fail)
				break
			}
			// the same history without/with the ReaderFrom fast path
			alt := caps
			alt.ReaderFrom = !alt.ReaderFrom
			var dummy int
			tr2, fail2 := runWHistory(w, steps, alt, reqCT, k, j, &dummy, &zero)
			if fail2 != "" {
				res.fail("C14/accounting", "history %v over %+v, connection fails after %d bytes, source fails after %d bytes: %s", desc, alt, k, j, fail2)
				break
			}
			if zero {
				res.inc("tolerance_first_byte_refused_in_readfrom")
				continue
			}
			if fmt.Sprint(tr) != fmt.Sprint(tr2) {
				res.fail("C14/fast-path-dependent", "history %v, connection fails after %d bytes, source after %d: Status/Size/Written after each call are %v with ReaderFrom=%v and %v with ReaderFrom=%v", desc, k, j, tr, caps.ReaderFrom, tr2, alt.ReaderFrom)
				break
			}
		}
	}
	res.add("faults_fired", fired)
	// one run in four: a single call carrying a payload larger than any staging buffer a writer may use (32 KiB is the
	// usual size), with and without a connection failure in the middle - same accounting, same bytes, on both paths
	if !res.failed() && src.Intn("largepayload", 4) == 3 {
		size := sim.Pick(src, "largesize", []int{32768, 32769, 40000, 70000, 100000})
		kind := sim.Pick(src, "largekind", []string{"write", "writestring", "readfrom", "stream", "blob", "string"})
		big := make([]byte, size)
		for i := range big {
			big[i] = byte('a' + i%23)
		}
		st := wStep{Kind: kind, Code: 200, Data: string(big), Chunk: src.Intn("chunk", 4)}
		res.inc("large_payload_" + kind)
		for _, k := range []int{-1, size / 2, 32768, size - 1} {
			for _, c := range []world.Caps{caps, func() world.Caps { a := caps; a.ReaderFrom = !a.ReaderFrom; return a }()} {
				var dummy int
				zero := false
				res.Checks++
				if _, fail := runWHistory(w, []wStep{st}, c, reqCT, k, -1, &dummy, &zero); fail != "" {
					if len(fail) > 600 {
						fail = fail[:600] + "..."
					}
					res.fail("C14/accounting", "one %s call with %d bytes over %+v, connection fails after %d bytes: %s", kind, size, c, k, fail)
					break
				}
			}
			if res.failed() {
				break
			}
		}
	}
	// overlapping streamed responses: 2-3 tasks stream distinct bytes through Context.Stream / ReadFrom from plain readers
	// into connections under the seeded scheduler; every connection yields when a write arrives, i.e. while the sender's
	// copy buffer is in flight. Every body byte is forwarded in order, whatever other requests do meanwhile.
	if !res.failed() {
		s := sim.NewSched(src)
		drawPolicy(src, s)
		nt := 2 + src.Intn("streamtasks", 2)
		conns := make([]*world.Conn, nt)
		wants := make([]string, nt)
		ccaps := world.NormCaps(world.Caps{ReaderFrom: src.Intn("streamrf", 4) == 0, Flusher: sim.Bool(src, "fl")})
		for t := 0; t < nt; t++ {
			t := t
			n := 1 + src.Intn("streamlen", 600)
			wants[t] = strings.Repeat(string(rune('A'+t)), n)
			conns[t] = world.NewConn()
			conns[t].OnWrite = func() { s.Yield(sim.PtUser) }
			viaStream := sim.Bool(src, "viastream")
			chunk := 1 + src.Intn("chunk", 64)
			s.Go(fmt.Sprintf("stream%d", t), func(*sim.Task) {
				log := &world.ReqLog{Inner: func(c fox.Context, _ *world.Hit) {
					rd := &chunkReader{data: wants[t], chunk: chunk, yield: func() { s.Yield(sim.PtHandler) }}
					if viaStream {
						_ = c.Stream(200, "application/x-sim", rd)
					} else {
						_, _ = c.Writer().ReadFrom(rd)
					}
				}}
				w.R.ServeHTTP(conns[t].Wrap(ccaps), world.NewRequest("GET", "", "/w", "", "", log))
			})
		}
		out := s.Run()
		res.Steps += s.Steps
		res.add("context_switches", s.Switches)
		res.Checks++
		if out.Kind != sim.Done {
			res.Leaked = s.Leaked()
			res.fail("C14/concurrent", "overlapping streams: scheduler ended with %s %s", out.Kind, out.Detail)
			return res
		}
		for _, tk := range s.Tasks {
			if tk.Panic != nil {
				res.Stack = tk.PanicStack
				res.fail("C14/panic", "overlapping streams: task %s panicked: %v", tk.Name, tk.Panic)
				return res
			}
		}
		for t := range conns {
			if string(conns[t].Body) != wants[t] {
				res.fail("C14/concurrent", "overlapping streams over %+v: connection %d received %d bytes %q..., expected %d times %q", ccaps, t, len(conns[t].Body), clip(string(conns[t].Body), 24), len(wants[t]), wants[t][:1])
				return res
			}
		}
	}
	res.Nontrivial = wroteBody && fired > 0
	res.CaseKey = hashStrings(append(desc, fmt.Sprintf("%+v", caps), reqCT)...)
	res.Hash = hashStrings(fmt.Sprint(res.Checks), fmt.Sprint(desc), fmt.Sprint(caps))
	res.Steps = len(steps)
	return res
}

// chunkReader is a plain io.Reader (no WriterTo) that hands out its data in small chunks and yields between them.
type chunkReader struct {
	data  string
	chunk int
	pos   int
	yield func()
}

func (r *chunkReader) Read(p []byte) (int, error) {
	if r.pos >= len(r.data) {
		return 0, io.EOF
	}
	r.yield()
	n := r.chunk
	if n > len(p) {
		n = len(p)
	}
	if n > len(r.data)-r.pos {
		n = len(r.data) - r.pos
	}
	copy(p, r.data[r.pos:r.pos+n])
	r.pos += n
	return n, nil
}

func clip(s string, n int) string {
	if len(s) > n {
		return s[:n]
	}
	return s
}

// presetContentType leaves a Content-Type in the response headers before a helper runs (a default-content-type
// middleware would): another type, or several values of which the first equals the type the helper is given.
func presetContentType(c fox.Context, kind int) {
	if kind == 2 {
		c.AddHeader("Content-Type", "application/x-sim")
		c.AddHeader("Content-Type", "text/x-other")
		return
	}
	c.SetHeader("Content-Type", "text/x-preset")
}
