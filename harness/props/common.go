// Package props holds one simulated check per claimed property: workload generator, fault plan and oracle.
package props

import (
	"encoding/json"
	"fmt"
	"hash/fnv"
	"os"
	"sort"

	"verif/harness/sim"
)

// Result is the outcome of one simulated run.
type Result struct {
	Class      string         // violation class ("" = the property held on this run)
	Detail     string         // human readable description of the violation
	Case       map[string]any // structured description of the run (config, programs, schedule, expected/actual)
	Known      map[string]*KnownHit
	Trouble    string // harness trouble (never a verdict)
	Hash       uint64 // event-log hash: determinism witness
	Steps      int
	Checks     int // oracle evaluations
	Nontrivial bool
	CaseKey    uint64 // identity of the case for distinct counting
	Stats      map[string]int
	Stack      string
	Leaked     bool // a task goroutine had to be abandoned: the process must not run further simulations
}

// KnownHit counts occurrences of a listed known finding.
type KnownHit struct {
	Count   int
	Witness string
}

func newResult() *Result {
	return &Result{Stats: map[string]int{}, Case: map[string]any{}}
}

func (r *Result) inc(k string) { r.Stats[k]++ }
func (r *Result) add(k string, n int) {
	if n != 0 {
		r.Stats[k] += n
	}
}

// fail records the first violation of the run.
func (r *Result) fail(class, format string, args ...any) {
	if r.Class != "" {
		return
	}
	r.Class = class
	r.Detail = fmt.Sprintf(format, args...)
}

func (r *Result) failed() bool { return r.Class != "" || r.Trouble != "" }

func (r *Result) known(class, witness string) {
	if !knownListed[class] {
		// not listed in known_findings.json: an ordinary violation
		r.fail(class, "%s", witness)
		return
	}
	if r.Known == nil {
		r.Known = map[string]*KnownHit{}
	}
	k := r.Known[class]
	if k == nil {
		k = &KnownHit{Witness: witness}
		r.Known[class] = k
	}
	k.Count++
}

// knownListed holds the classes listed with status "known" in known_findings.json (read once, never written).
var knownListed = map[string]bool{}

func init() {
	path := os.Getenv("VERIF_KNOWN")
	if path == "" {
		path = "/verif/known_findings.json"
	}
	b, err := os.ReadFile(path)
	if err != nil {
		return
	}
	var f struct {
		Findings []struct {
			Status string `json:"status"`
			Class  string `json:"class"`
		} `json:"findings"`
	}
	if json.Unmarshal(b, &f) == nil {
		for _, x := range f.Findings {
			if x.Status == "known" {
				knownListed[x.Class] = true
			}
		}
	}
}

func hashStrings(parts ...string) uint64 {
	h := fnv.New64a()
	for _, p := range parts {
		h.Write([]byte(p))
		h.Write([]byte{0})
	}
	return h.Sum64()
}

// Opts are the per-invocation options of a property run.
type Opts struct {
	Trace bool // keep the full event trace / sample description (replay, samples)
	HB    bool // binary built with -race: only the schedule matters, semantic oracles that depend on pooling are skipped
}

// Prop describes one check.
type Prop struct {
	ID    string
	Level string // exploration | fault_enumeration
	Rule  string
	Run   func(src sim.Source, o Opts) *Result
	// HBRun, when set, is the variant executed under the race detector.
	HBRun func(src sim.Source, o Opts) *Result
	// Runs per tier (plain, hb)
	Quick, Thorough     int
	QuickHB, ThoroughHB int
	Real, Stub          []string
	Assumptions         []string
	Tolerances          []string
	Domain              []string
}

var registry = map[string]*Prop{}

func register(p *Prop) { registry[p.ID] = p }

// Get returns the check of a property.
func Get(id string) *Prop { return registry[id] }

// IDs lists the claimed properties.
func IDs() []string {
	var out []string
	for k := range registry {
		out = append(out, k)
	}
	sort.Strings(out)
	return out
}

var commonReal = []string{"fox.Router", "radix tree + copy-on-write transactions (tree.go, node.go, txn.go)", "iterators", "request Context and sync.Pool recycling", "recorder ResponseWriter"}
var commonStub = []string{"net/http server and connection (replaced by the simulated connection)", "user handlers, middleware and resolvers (instrumented harness code)"}
