package props

import (
	"fmt"
	"strings"

	"verif/harness/model"
	"verif/harness/sim"
	"verif/harness/world"
)

func init() {
	register(&Prop{
		ID: "C09", Level: "exploration",
		Rule: "one case = a router shaped by a seeded mutation history over a pool that mixes hostname patterns (static labels, {param} labels, mid-label params) and path-only patterns; for instantiated requests the Host header is varied over: exact, with port, with trailing dot, dot and port, one extra label on the left/right, one extra byte on the left/right, truncated by a byte or a label, another pool host, [::1]:80, 127.0.0.1, empty. Oracle: the reference matcher's host rules (strip port and one trailing dot; whole-host, label-for-label match; path-only routes exactly when no hostname route yields a match or trailing-slash action) through Lookup, Reverse, Iter.Reverse and ServeHTTP; metamorphic clause without model: for a method whose routes have no hostname every Host value gives the same answer. A slash-adjusted hostname candidate must be reported by Lookup and Reverse alike and keeps ServeHTTP from serving a path-only route (strict since the trailing-slash detection was repaired in /repo). Non-trivial: at least 2 probes matched through a hostname route and at least 1 probe with a near-miss Host fell back or matched nothing; distinct = hash of (final set, probes).",
		Run:  runC09, Quick: 80000, Thorough: 9600000,
		Real: commonReal, Stub: commonStub,
		Tolerances: []string{"leading_slash_capture as in C01"},
		Domain:     []string{"hosts are lower case LDH labels from {a,b,ab,c,a-b} with values from the probe alphabet; ports numeric"},
	})
}

func hostVariants(s sim.Source, host string, other string) (string, string) {
	if host == "" {
		return sim.Pick(s, "nohost", []string{"", "a.b", "zz", "127.0.0.1", "[::1]:80", ":8080", ".", ".:443"}), "none"
	}
	labels := strings.Split(host, ".")
	switch s.Intn("hostvar", 18) {
	case 17:
		// '%' is an ordinary Host byte (percent-encoded reg-name): text after it belongs to the Host, port or not
		return host + sim.Pick(s, "percent", []string{"%25evil.net:8080", "%evil:443", ".%25x:80", "%25evil.net", "%eth0"}), "percent-suffix"
	case 15, 16:
		// text after a colon that is no port (a port is digits): the Host is not "the hostname plus a port", and nothing
		// of it is removed
		return host + sim.Pick(s, "notaport", []string{":80.evil.org", ":evil.org", ":http", ":8o", ":80..", ":80.x"}), "colon-without-port"
	case 0, 1:
		return host, "exact"
	case 2:
		return host + ":80", "port"
	case 3:
		return host + ".", "dot"
	case 4:
		return host + sim.Pick(s, "dotport", []string{".:8080", ".:8080", ":8080."}), "dot+port"
	case 5:
		return "x." + host, "extra-label-left"
	case 6:
		return host + ".evil", "extra-label-right"
	case 7:
		return "x" + host, "extra-byte-left"
	case 8:
		return host + "x", "extra-byte-right"
	case 9:
		return host[:len(host)-1], "truncated-byte"
	case 10:
		if len(labels) > 1 {
			return strings.Join(labels[1:], "."), "truncated-label-left"
		}
		return host[1:], "truncated-byte-left"
	case 11:
		if len(labels) > 1 {
			return strings.Join(labels[:len(labels)-1], "."), "truncated-label-right"
		}
		return "", "empty"
	case 13:
		// letter case: hostnames are matched byte for byte, so a Host that differs in case only is another host
		if i := 1 + s.Intn("upperat", len(host)); i < len(host) && host[i] >= 'a' && host[i] <= 'z' {
			return host[:i] + strings.ToUpper(host[i:i+1]) + host[i+1:], "other-letter-case"
		}
		return strings.ToUpper(host), "upper-case"
	case 12:
		if s.Intn("manycolons", 2) == 1 {
			// not a host:port form: several colons outside brackets leave the Host as it is (it matches nothing)
			return host + sim.Pick(s, "colons", []string{":80:90", "::1", ".:1:2"}), "several-colons"
		}
		if s.Intn("stripstwice", 2) == 1 {
			// forms from which a second stripping would remove more: only ONE dot, one port, one pair of brackets go
			return sim.Pick(s, "twice", []string{host + "..", host + "..:8080", "[" + host + ":8080]:80"}), "strips-twice"
		}
		return other, "other-host"
	default:
		return sim.Pick(s, "literal", []string{"[::1]:80", "127.0.0.1", "", host + ":", ":8080", ".", ".:443"}), "literal"
	}
}

func runC09(src sim.Source, o Opts) *Result {
	res := newResult()
	rr := &routingRun{src: src, res: res, f: routingFocus{prop: "C09", hostHeavy: true, methods: methods3, strictHost: true}}
	if !rr.build() {
		return res
	}
	rounds := 2 + src.Intn("rounds", 3)
	var probeKeys []string
	for r := 0; r < rounds && !res.failed(); r++ {
		rr.mutate(1 + src.Intn("mutations", 6))
		if rr.skip {
			res.inc("runs_stopped_setup_write_disagrees_with_map_model")
			break
		}
		nprobes := 3 + src.Intn("nprobes", 8)
		for i := 0; i < nprobes && !res.failed(); i++ {
			rr.churnPool()
			pat := rr.pool[src.Intn("pp", len(rr.pool))]
			host, path := world.Instantiate(src, pat)
			oh, _ := world.Instantiate(src, rr.pool[src.Intn("op", len(rr.pool))])
			h, kind := hostVariants(src, host, oh)
			res.inc("host_" + kind)
			p := world.Probe{Method: sim.Pick(src, "m", methods3), Host: h, Path: path}
			if src.Intn("slash", 5) == 4 && len(p.Path) > 1 {
				if strings.HasSuffix(p.Path, "/") {
					p.Path = p.Path[:len(p.Path)-1]
				} else {
					p.Path += "/"
				}
			}
			probeKeys = append(probeKeys, fmt.Sprint(p))
			where := fmt.Sprintf("round %d host variant %s", r, kind)
			m := rr.set.Match(p.Method, p.Host, p.Path, model.MatchOpts{})
			if m.Route != nil && !m.TSR && m.ViaHost {
				res.inc("probes_matched_via_host")
			} else if host != "" && kind != "exact" {
				res.inc("probes_near_miss_host")
			}
			rr.checkDirect(p, rr.w.R, where)
			if res.failed() {
				break
			}
			rr.checkServeDirect(p, where)
			if res.failed() {
				break
			}
			// a method whose routes have no hostname ignores the Host altogether (no model involved)
			hasHost := false
			for _, rt := range rr.set.Routes() {
				if rt.Method == p.Method && rt.Pat.Host != "" {
					hasHost = true
				}
			}
			if !hasHost {
				a := world.ObsLookup(rr.w.R, p)
				q := p
				q.Host = sim.Pick(src, "anyhost", []string{"", "zz.example", "a.b:80", "[::1]:80", "a.b."})
				b := world.ObsLookup(rr.w.R, q)
				res.Checks++
				res.inc("metamorphic_host_ignored")
				if a.String() != b.String() {
					res.fail("C09/host-not-ignored", "%s: method %s has no hostname route, yet Host %q gives %s and Host %q gives %s for %s; routes: %s", where, p.Method, p.Host, a, q.Host, b, p.Path, setString(rr.set, p.Method))
				}
			}
		}
	}
	for _, cc := range rr.held {
		cc.Close()
	}
	res.Nontrivial = res.Stats["probes_matched_via_host"] >= 2 && res.Stats["probes_near_miss_host"] >= 1
	res.CaseKey = hashStrings(append([]string{rr.set.Fingerprint()}, probeKeys...)...)
	res.Hash = hashStrings(fmt.Sprint(res.Checks), rr.set.Fingerprint(), fmt.Sprint(rr.history), fmt.Sprint(probeKeys))
	res.Steps = len(rr.history)
	if o.Trace || res.Class != "" {
		rr.describe()
	}
	return res
}
