package props

import (
	"fmt"
	"net/url"
	"strings"

	"github.com/tigerwill90/fox"

	"verif/harness/model"
	"verif/harness/sim"
	"verif/harness/world"
)

func init() {
	register(&Prop{
		ID: "C07", Level: "exploration",
		Rule: "one case = two real routers with the same options: A is driven through a seeded mutation history (inserts, updates, deletes, truncations, re-insertions, committed/aborted/panicked transactions, copy cache capacity drawn); B is fresh and receives A's final set in a random order (small sets: a random permutation), one time in three inside a single write transaction which is asked the probes (Lookup, Reverse) before it commits. Every probe derived from the patterns involved (one in four with an escaped form differing from its decoded path) is sent to both through Lookup (route, parameters, tsr flag), Reverse and ServeHTTP (handler, parameters, status, Allow set, Location) and the answers must be equal; no reference model takes part in the comparison. Any difference is a violation (in 80 000 exploratory runs equal sets always produced equal answers, including the C08 known findings, which are a function of the set). Non-trivial: A's history contains at least one effective delete or truncate and the final set has at least 3 routes; distinct = hash of (A's history, B's order).",
		Run:  runC07, Quick: 64000, Thorough: 9600000,
		Real: commonReal, Stub: commonStub,
		Domain: []string{"as C01/C08; both routers are built in the same process with the same generated options"},
	})
}

// methodsC07: the usual verbs plus explicit OPTIONS routes (the position of the OPTIONS root among the method roots
// depends on when its first route was registered - and on nothing a request may observe).
var methodsC07 = append(append([]string(nil), methods3...), "OPTIONS")

func runC07(src sim.Source, o Opts) *Result {
	res := newResult()
	rr := &routingRun{src: src, res: res, f: routingFocus{prop: "C07", tsOptions: true, methods: methodsC07}}
	if !rr.build() {
		return res
	}
	rr.mutate(4 + src.Intn("mutations", 24))
	if rr.skip {
		res.inc("runs_stopped_setup_write_disagrees_with_map_model")
		return res
	}
	effDel := 0
	for _, h := range rr.history {
		if strings.HasPrefix(h, "delete") || strings.Contains(h, "truncate") || strings.Contains(h, "delete(") {
			effDel++
		}
	}
	// B: fresh router, same options, final set in a random order
	wb, err := world.Build(rr.cfg)
	if err != nil {
		res.Trouble = err.Error()
		return res
	}
	routes := append([]*model.Route(nil), rr.set.Routes()...)
	var order []string
	for i := len(routes) - 1; i > 0; i-- {
		j := src.Intn("shuffle", i+1)
		routes[i], routes[j] = routes[j], routes[i]
	}
	// one time in three B receives the set inside one write transaction; the transaction - holding the same set before
	// its commit - must answer lookups like A
	var bw world.Writer = wb.R
	var btxn *fox.Txn
	if src.Intn("binsidetxn", 3) == 2 {
		btxn = wb.R.Txn(true)
		defer btxn.Abort()
		bw = btxn
		res.inc("runs_with_B_filled_in_one_transaction")
	}
	for _, r := range routes {
		ts := 3
		if r.IgnoreTS {
			ts = 1
		} else if r.RedirectTS {
			ts = 2
		}
		if _, err := bw.Handle(r.Method, r.Pattern, world.Handler(r.Tag), world.FoxOpts(r.Tag, world.RouteOpt{TS: ts})...); err != nil {
			res.fail("C07/insert-order", "fresh router rejects %s %s of A's final set (order %v): %v", r.Method, r.Pattern, order, err)
			return res
		}
		order = append(order, r.Method+" "+r.Pattern)
	}
	nprobes := 6 + src.Intn("nprobes", 14)
	var probes []world.Probe
	for i := 0; i < nprobes; i++ {
		p := world.GenProbe(src, rr.pool, append([]string{"OPTIONS"}, methods3...))
		if src.Intn("toggle", 3) == 0 && len(p.Path) > 1 {
			if strings.HasSuffix(p.Path, "/") {
				p.Path = p.Path[:len(p.Path)-1]
			} else {
				p.Path += "/"
			}
		}
		if src.Intn("optionsstar", 8) == 0 {
			p = world.Probe{Method: "OPTIONS", Path: "*"} // server-wide OPTIONS: lists every method that has routes
		}
		probes = append(probes, p)
	}
	if btxn != nil {
		for _, p := range probes {
			res.Checks++
			fa := fmt.Sprintf("lookup=%s reverse=%s", world.ObsLookup(rr.w.R, p), world.ObsReverse(rr.w.R, p))
			fb := fmt.Sprintf("lookup=%s reverse=%s", world.ObsLookup(btxn, p), world.ObsReverse(btxn, p))
			if fa != fb {
				res.fail("C07/history-dependent", "%s %s%s: router A (history) answers %s; the write transaction that holds the same set on fresh router B answers %s; set: %s; A's history: %v; B's order: %v", p.Method, p.Host, p.Path, fa, fb, setString(rr.set, p.Method), rr.history, order)
				break
			}
		}
		btxn.Commit()
	}
	for _, p := range probes {
		if res.failed() {
			break
		}
		res.Checks++
		// one probe in four carries an escaped form that differs from its decoded path: a needlessly escaped byte
		// (same path either way) or an escaped separator inside a segment
		rawPath := ""
		if p.Path != "*" && len(p.Path) > 1 && src.Intn("escaped", 4) == 0 {
			segs := strings.Split(p.Path, "/")
			i := 1 + src.Intn("rseg", len(segs)-1)
			if segs[i] != "" && segs[i] != "." && segs[i] != ".." {
				if src.Intn("esckind", 2) == 0 {
					segs[i] = fmt.Sprintf("%%%02X", segs[i][0]) + segs[i][1:]
				} else {
					segs[i] = sim.Pick(src, "rval", []string{"a%2Fb", "x%2Fy", "%2F"})
				}
				if u, err := url.ParseRequestURI(strings.Join(segs, "/")); err == nil && u.RawPath != "" {
					p.Path, rawPath = u.Path, u.RawPath
					res.inc("probes_with_escaped_path")
				}
			}
		}
		lookup := func(w *world.World) world.RouteObs {
			req := world.NewRequest(p.Method, p.Host, p.Path, rawPath, "", nil)
			rt, cc, tsr := w.R.Lookup(world.NewRW(world.NewConn()), req)
			if rt == nil {
				return world.RouteObs{Tag: -1}
			}
			o := world.RouteObs{Tag: world.TagOf(rt), Pattern: rt.Pattern(), TSR: tsr, HasParams: true, Params: world.CollectParams(cc)}
			cc.Close()
			return o
		}
		la, lb := lookup(rr.w), lookup(wb)
		ra, rbv := world.ObsReverse(rr.w.R, p), world.ObsReverse(wb.R, p)
		sa, sb := rr.w.Serve(p, rawPath, "", nil), wb.Serve(p, rawPath, "", nil)
		fa := fmt.Sprintf("lookup=%s reverse=%s serve=%s allow=%v", la, ra, fmtObs(sa), sa.Allow)
		fb := fmt.Sprintf("lookup=%s reverse=%s serve=%s allow=%v", lb, rbv, fmtObs(sb), sb.Allow)
		if fa == fb {
			continue
		}
		detail := fmt.Sprintf("%s %s%s: router A (history) answers %s; router B (fresh, same set) answers %s; set: %s; A's history: %v; B's order: %v", p.Method, p.Host, p.Path, fa, fb, setString(rr.set, p.Method), rr.history, order)
		res.fail("C07/history-dependent", "%s", detail)
	}
	res.Nontrivial = effDel >= 1 && rr.set.Len() >= 3
	res.CaseKey = hashStrings(append(append([]string{rr.cfg.String()}, rr.history...), order...)...)
	res.Hash = hashStrings(fmt.Sprint(res.Checks), rr.set.Fingerprint(), fmt.Sprint(rr.history), fmt.Sprint(order))
	res.Steps = len(rr.history)
	if o.Trace || res.Class != "" {
		rr.describe()
		res.Case["b_order"] = order
	}
	return res
}

var _ = sim.Bool
