package props

import (
	"testing"

	"verif/harness/model"
	"verif/harness/sim"
	"verif/harness/world"
)

// Regression cases for the harness itself: inputs on which a check once raised a false alarm (DESIGN.md section 9).
// Run with: go test -tags verif ./props/  (needs the replace directive of the build, see tools/build_worker.sh).

func fixedRun(t *testing.T, f routingFocus, routes []string, method string) *routingRun {
	t.Helper()
	res := newResult()
	rr := &routingRun{src: sim.NewPRNG(1), res: res, f: f}
	w, err := world.Build(world.Cfg{})
	if err != nil {
		t.Fatal(err)
	}
	rr.w, rr.set = w, model.NewSet()
	for i, raw := range routes {
		p, err := model.Parse(raw)
		if err != nil {
			t.Fatal(err)
		}
		rr.pool = append(rr.pool, p)
		op := WOp{Kind: "handle", Method: method, Pat: i, Tag: i + 1}
		if out, want := applyFox(w, w.R, rr.pool, op), applyModel(rr.set, rr.cfg, rr.pool, op); !sameOut(out, want) {
			t.Fatalf("setup %v: %v vs %v", op, out, want)
		}
	}
	return rr
}

// item 18: strict hostname mode met the leading-slash ambiguity through a slash-adjusted hostname candidate
func TestC09StrictHostWithLeadingSlashCapture(t *testing.T) {
	rr := fixedRun(t, routingFocus{prop: "C09", hostHeavy: true, methods: methods3, strictHost: true},
		[]string{"/{p0}/{p1}/ba/a/{p4}", "/{p0}/{p1}/{p2}/{p3}/", "{h0}/a*{p0}/", "{h0}/a*{p0}/{p1}", "{h0}/a/"}, "POST")
	p := world.Probe{Method: "POST", Host: "[::1]:80", Path: "/a/b/ba/a/ab"}
	rr.checkDirect(p, rr.w.R, "regression")
	if !rr.res.failed() {
		rr.checkServeDirect(p, "regression")
	}
	if rr.res.failed() {
		t.Fatalf("false alarm: %s %s", rr.res.Class, rr.res.Detail)
	}
}
