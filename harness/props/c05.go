package props

import (
	"sync"
	"sync/atomic"
	"errors"
	"fmt"
	"github.com/tigerwill90/fox"
	"strings"
	"verif/harness/world"

	"verif/harness/sim"
)

func init() {
	register(&Prop{
		ID: "C05", Level: "exploration",
		Rule: "one case = 1-3 writer tasks (single Handle/Update/Delete and multi-route transactions ended by commit, abort, error or injected panic) and 1-3 reader tasks (ServeHTTP with yields inside the handler, Lookup, Reverse, Has, Route, Len, Iter.All, one Iter.Routes sequence ranged twice, View) on 3-8 keys that share tree nodes, every written route carrying a unique tag; one run in six works on a tree deeper than 25 levels (a ballast chain of nested prefixes, which switches iterators and the backtracking stack to their heap-sized path); the seeded scheduler decides every switch at the fox yield points (acquire, locked, before/after load, commit, stored, unlocked, abort) and at harness yields; the recorded invoke/return history plus a final audit is checked with porcupine against a sequential map + reference dispatcher; any panic is a violation; in HB mode the same schedules run under the race detector with simulator hand-offs hidden. Non-trivial: at least one context switch happened while a writer was between lock and unlock or a reader was parked between its tree load and its use; distinct = hash of (programs, schedule).",
		Run:  runC05, HBRun: runC05,
		Quick: 96000, Thorough: 16000000, QuickHB: 12000, ThoroughHB: 1600000,
		Real: commonReal, Stub: commonStub,
		Domain:      []string{"<= 6 keys from fixed families of node-sharing patterns, <= 6 tasks, <= 40 operations per run (porcupine tractability)", "trailing-slash options off in this check (decided by C08)"},
		Assumptions: []string{"porcupine v1.3.0 decides linearizability of the recorded history; Unknown (timeout) is counted, never reported"},
	})
}

func runC05(src sim.Source, o Opts) *Result {
	res := newResult()
	res.Case["prop"] = "C05"
	runConc(src, o, res, concPlan{writersMin: 1, writersMax: 3, readersMin: 1, readersMax: 3, opsMin: 2, opsMax: 7, txnRate: 3})
	return res
}

type concPlan struct {
	writersMin, writersMax int
	readersMin, readersMax int
	opsMin, opsMax         int
	txnRate                int // out of 10: share of writer ops that are transactions
	mixed                  bool
}

// runConc is the shared concurrent scenario of C04/C05: generate programs, run them under the seeded scheduler,
// then judge the history.
func runConc(src sim.Source, o Opts, res *Result, plan concPlan) {
	cw := buildConcWorld(src, res, 0, true)
	if cw == nil {
		return
	}
	nw := sim.Range(src, "writers", plan.writersMin, plan.writersMax)
	nr := sim.Range(src, "readers", plan.readersMin, plan.readersMax)
	nextTag := 0
	var progs [][]COp
	for i := 0; i < nw; i++ {
		n := sim.Range(src, "wops", plan.opsMin, plan.opsMax)
		var p []COp
		for j := 0; j < n; j++ {
			if src.Intn("istxn", 10) < plan.txnRate {
				p = append(p, COp{Kind: "txn", Txn: genCTxn(src, cw, &nextTag)})
			} else if src.Intn("wread", 6) == 5 {
				p = append(p, genReadCOp(src, cw))
			} else if src.Intn("truncabort", 12) == 11 {
				// a write transaction that truncates one method (or all) and is given up: it only reads the published tree
				p = append(p, COp{Kind: "truncabort", Key: src.Intn("trunckey", len(cw.keys)+1) - 1})
			} else if src.Intn("inhandler", 8) == 7 {
				nextTag++
				wop := genWriteCOp(src, len(cw.keys), nextTag)
				p = append(p, COp{Kind: "serve_write", Probe: src.Intn("probe", len(cw.probes)), Inner: wop.Kind, Key: wop.Key, Tag: wop.Tag})
			} else {
				nextTag++
				p = append(p, genWriteCOp(src, len(cw.keys), nextTag))
			}
		}
		progs = append(progs, p)
	}
	for i := 0; i < nr; i++ {
		n := sim.Range(src, "rops", plan.opsMin, plan.opsMax)
		var p []COp
		for j := 0; j < n; j++ {
			p = append(p, genReadCOp(src, cw))
		}
		progs = append(progs, p)
	}
	// what was generated: operation kinds and transaction endings (faults) of this run
	for _, p := range progs {
		for _, op := range p {
			res.inc("op_" + op.Kind)
			if op.Kind == "txn" {
				res.inc("fault_txn_end_" + op.Txn.End)
				if op.Txn.SnapAt >= 0 {
					res.inc("txn_with_snapshot")
				}
			}
		}
	}
	res.inc(fmt.Sprintf("cow_cache_capacity_%d", cw.cfg.CacheSize))
	s := sim.NewSched(src)
	s.KeepTrace = o.Trace
	drawPolicy(src, s)
	logs := make([]*taskLog, len(progs))
	var progsLeft atomic.Int32 // (harness state shared between tasks is synchronised for the race detector's sake)
	progsLeft.Store(int32(len(progs)))
	for i := range progs {
		i := i
		logs[i] = &taskLog{}
		s.Go(fmt.Sprintf("task%d", i), func(t *sim.Task) {
			defer progsLeft.Add(-1) // (also when the task leaves through runtime.Goexit)
			cw.runProgram(s, i, progs[i], logs[i])
		})
	}
	// snapshots handed over by write transactions (SnapEnd 4) are read by a task of their own while the transaction
	// that produced them goes on reading and writing: every answer of a snapshot stays what it was at first
	var snapFail string
	handsOff := false
	for _, p := range progs {
		for _, op := range p {
			handsOff = handsOff || (op.Kind == "txn" && op.Txn.SnapAt >= 0 && op.Txn.SnapEnd == 4)
		}
	}
	if handsOff {
		res.inc("runs_with_snapshot_handed_to_another_task")
		var handed []*fox.Txn
		var hmu sync.Mutex
		var nh atomic.Int32 // the scheduler evaluates wait conditions itself: they read atomics only
		cw.handOff = func(sn *fox.Txn) { hmu.Lock(); handed = append(handed, sn); hmu.Unlock(); nh.Add(1) }
		nhanded := func() int { return int(nh.Load()) }
		observe := func(sn *fox.Txn) string {
			var sb strings.Builder
			for _, k := range cw.keys {
				rt := sn.Route(k.Method, k.Pat.Raw)
				fmt.Fprintf(&sb, "%v/%d ", sn.Has(k.Method, k.Pat.Raw), tagOrZero(rt))
			}
			for _, p := range cw.probes {
				rt, tsr := sn.Reverse(p.Method, p.Host, p.Path)
				fmt.Fprintf(&sb, "%d/%v ", tagOrZero(rt), tsr)
			}
			fmt.Fprintf(&sb, "len=%d", sn.Len())
			return sb.String()
		}
		s.Go("snapreader", func(*sim.Task) {
			for {
				s.WaitUntil("a handed-over snapshot or the end of the programs", func() bool { return nhanded() > 0 || progsLeft.Load() == 0 })
				if nhanded() == 0 {
					return
				}
				hmu.Lock()
				sn := handed[0]
				handed = handed[1:]
				hmu.Unlock()
				nh.Add(-1)
				first := observe(sn)
				for r := 0; r < 3 && snapFail == ""; r++ {
					s.Yield(sim.PtUser)
					if again := observe(sn); again != first {
						snapFail = fmt.Sprintf("a Snapshot() read by another task while its transaction goes on changed: %s became %s", first, again)
					}
				}
			}
		})
	}
	// a neighbour: a second, unrelated Router in the same process, written by its own task. Routers share nothing, so
	// its answers depend on its own history only - and in HB mode any memory the two routers share shows up as a race
	var neighbourFail string
	if src.Intn("neighbour", 4) == 0 {
		res.inc("runs_with_a_second_router")
		if w2, err := world.Build(cw.cfg); err == nil {
			s.Go("neighbour", func(*sim.Task) {
				fail := func(format string, args ...any) {
					if neighbourFail == "" {
						neighbourFail = fmt.Sprintf(format, args...)
					}
				}
				r := w2.R
				for i, pat := range []string{"/n/a", "/n/{x}", "/n/{x}/b", "/m/*{y}"} {
					if _, err := r.Handle("GET", pat, world.Handler(500+i)); err != nil {
						fail("Handle %s on the second router: %v", pat, err)
					}
					s.Yield(sim.PtUser)
				}
				_, err := r.Handle("GET", "/n/{z}", world.Handler(510))
				var ce *fox.RouteConflictError
				if !errors.As(err, &ce) || len(ce.Matched) != 2 {
					fail("conflicting Handle on the second router returned %v (want a conflict naming its 2 routes below /n/{x})", err)
				}
				s.Yield(sim.PtUser)
				_ = r.Updates(func(txn *fox.Txn) error {
					if err := txn.Truncate("GET"); err != nil {
						fail("Truncate on the second router: %v", err)
					}
					if n := txn.Len(); n != 0 {
						fail("second router: Len() = %d after Truncate(GET) of its only method", n)
					}
					return errInjected
				})
				s.Yield(sim.PtUser)
				if n := r.Len(); n != 4 {
					fail("second router: Len() = %d after an aborted truncate, want 4", n)
				}
			})
		}
	}
	out := cw.runSched(s)
	res.Leaked = res.Leaked || s.Leaked()
	res.Steps = s.Steps
	res.Hash = s.Hash()
	res.add("context_switches", s.Switches)
	res.add("lock_waits", s.LockWaits)
	for pt := sim.Point(0); pt < sim.NumPoints; pt++ {
		if s.PointParks[pt] > 0 {
			res.add("park_"+pt.String(), s.PointParks[pt])
		}
	}
	describe := func() {
		res.Case["config"] = cw.cfg.String()
		var keys []string
		for i, k := range cw.keys {
			keys = append(keys, fmt.Sprintf("k%d=%s %s", i, k.Method, k.Pat.Raw))
		}
		res.Case["keys"] = keys
		var prs []string
		for i, p := range cw.probes {
			prs = append(prs, fmt.Sprintf("p%d=%s %s%s", i, p.Method, p.Host, p.Path))
		}
		res.Case["probes"] = prs
		res.Case["programs"] = describeTasks(progs)
		if s.KeepTrace {
			var sched []string
			for _, e := range s.Trace {
				if e.Kind == "run" {
					sched = append(sched, fmt.Sprintf("t%d@%s", e.Task, e.Info))
				}
			}
			res.Case["schedule"] = strings.Join(sched, " ")
		}
	}
	switch out.Kind {
	case sim.Done:
	case sim.Deadlock:
		describe()
		res.fail(res.Case["prop"].(string)+"/deadlock", "every unfinished task waits forever: %s", out.Detail)
		return
	case sim.Stalled:
		describe()
		res.Stack = out.Stack
		res.fail(res.Case["prop"].(string)+"/blocked", "task %s blocked in %s outside the simulator's gates", out.Task.Name, out.State)
		return
	default:
		res.Trouble = fmt.Sprintf("scheduler: %s %s", out.Kind, out.Detail)
		return
	}
	for _, t := range s.Tasks {
		if t.Panic != nil {
			describe()
			res.Stack = t.PanicStack
			if strings.Contains(t.PanicStack, "github.com/tigerwill90/fox.") {
				res.fail(res.Case["prop"].(string)+"/panic", "task %s panicked: %v", t.Name, t.Panic)
			} else {
				res.Trouble = fmt.Sprintf("task %s panicked in harness code: %v\n%s", t.Name, t.Panic, t.PanicStack)
			}
			return
		}
	}
	if neighbourFail != "" {
		describe()
		res.fail(res.Case["prop"].(string)+"/second-router", "%s", neighbourFail)
		return
	}
	if snapFail != "" {
		describe()
		res.fail(res.Case["prop"].(string)+"/snapshot-changed", "%s", snapFail)
		return
	}
	// non-triviality: a switch inside a writer's critical section or across a reader's load
	crit := s.PointParks[sim.PtLocked] + s.PointParks[sim.PtCommit] + s.PointParks[sim.PtStored] + s.PointParks[sim.PtAfterLoad] + s.PointParks[sim.PtTxnFn] + s.PointParks[sim.PtAbort] + s.PointParks[sim.PtBeforeUnlock] + s.PointParks[sim.PtBeforeStore]
	res.Nontrivial = crit > 0 && s.Switches > 0
	res.CaseKey = sim.Mix(s.SchedHash, hashStrings(describeTasks(progs)...))
	if s.LockWaits > 0 {
		res.inc("probe_two_writers_contended")
	}
	stamp := s.Stamp()
	audit := cw.auditOps(&stamp)
	if o.Trace {
		describe()
	}
	cw.checkLinearizable(res, logs, audit)
	if res.Class != "" {
		describe()
	}
}
