package props

import (
	"fmt"
	"iter"
	"regexp"
	"sort"
	"strings"

	"github.com/tigerwill90/fox"

	"verif/harness/model"
	"verif/harness/sim"
	"verif/harness/world"
)

func init() {
	register(&Prop{
		ID: "C12", Level: "exploration",
		Rule: "one case = 1-3 client tasks and an optional writer task under the seeded scheduler; every request carries a unique token in every observable field (parameter values, path, query string, request header, host label) and its handler derives response header, status and body length from the token; request shapes are drawn from direct match, ignored trailing slash (parameters come from the slash-adjusted copy), redirect, 404/405/OPTIONS handlers, manual Lookup with and without Close, CloneWith and Clone, a handler that hijacks its connection; iterator sequences (Iter.Reverse/Routes/Prefix) obtained earlier by the task and ranged again inside a later handler or while a Lookup context is held (must yield what they yielded first and leave the request's context alone); handlers yield so that other requests start, finish and recycle contexts in between, and the writer task replaces the tree between requests (contexts are pooled per tree version). Oracle inside every handler, before and after each yield: every Context getter shows the current request's token and nothing of another request; writer status/size/written start clean; route, pattern, scope as the reference dispatcher says. A Clone taken in request A (before or after the response was written; in the latter case the live request's URL and headers are then rewritten in place) is re-inspected after every later request of its task and at the end: identical to its first fingerprint and free of any other token (including response headers). Route handlers answer through WriteHeader+Write, Context.String, Blob or Stream (drawn) on connections that fail after 0-4 body bytes now and then, and read Status/Size/Written back: they must account for this response only, and the connection must hold exactly the accepted bytes. Non-trivial: a context was re-observed after another task ran, or a clone was re-inspected after a later request; distinct = hash of (programs, schedule).",
		Run:  runC12, Quick: 64000, Thorough: 9600000,
		Real:   []string{"request Context and its reset variants", "sync.Pool recycling per tree version (deterministic: GOMAXPROCS=1, GC off during a run)", "Clone/CloneWith", "ServeHTTP dispatch", "recorder ResponseWriter"},
		Stub:   commonStub,
		Domain: []string{"plain mode only: under -race sync.Pool drops objects at random"},
	})
}

var tokenRe = regexp.MustCompile(`t[0-9]+x`)

type c12Route struct {
	Method  string
	Pattern string
	Mk      func(tok string) (host, path string)
	TSR     bool                                        // reached through an ignored trailing slash
	MkVar   func(tok string, v int) (host, path string) // generated routes: bit i of v gives parameter i a value that is also a static text of the pool
}

func otherTokens(s, own string) []string {
	var out []string
	for _, m := range tokenRe.FindAllString(s, -1) {
		if m != own {
			out = append(out, m)
		}
	}
	return out
}

// ctxFingerprint reads every getter of a context.
func ctxFingerprint(c fox.Context) string {
	if c.Request() == nil || c.Writer() == nil {
		return fmt.Sprintf("<context without request or writer: request=%v writer=%v>", c.Request() != nil, c.Writer() != nil)
	}
	var ps []string
	for p := range c.Params() {
		ps = append(ps, p.Key+"="+p.Value)
	}
	var rh []string
	for k, v := range c.Writer().Header() {
		rh = append(rh, k+"="+strings.Join(v, ","))
	}
	sort.Strings(rh)
	req := c.Request()
	return fmt.Sprintf("params[%s] param(a)=%s pattern=%s route#%d scope=%d method=%s path=%s host=%s q=%s qp=%s hdr=%s reqhdr=%s status=%d size=%d written=%v resphdr[%s] urlpath=%s",
		strings.Join(ps, ","), c.Param("a"), c.Pattern(), world.TagOf(c.Route()), c.Scope(), c.Method(), c.Path(), c.Host(), c.QueryParam("tok"), c.QueryParams().Encode(),
		c.Header("X-Token"), req.Header.Get("X-Token"), c.Writer().Status(), c.Writer().Size(), c.Writer().Written(), strings.Join(rh, ";"), req.URL.Path)
}

// c12Seq is an iterator sequence obtained earlier and kept by its task: ranging it again later must neither change
// what it yields nor touch the context of the request in flight (lookup-backed sequences use pooled contexts).
type c12Seq struct {
	what  string
	seq   iter.Seq2[string, *fox.Route]
	first string
}

func collectSeq(seq iter.Seq2[string, *fox.Route]) string {
	var out []string
	for m, r := range seq {
		out = append(out, fmt.Sprintf("%s %s#%d", m, r.Pattern(), world.TagOf(r)))
	}
	return strings.Join(out, " | ")
}

type c12Clone struct {
	c     fox.Context
	tok   string
	first string
	seen  int
}

// accepted is the number of body bytes a connection failing after failAt bytes (-1: never) takes out of n.
func accepted(failAt, n int) int {
	if failAt >= 0 && failAt < n {
		return failAt
	}
	return n
}

func runC12(src sim.Source, o Opts) *Result {
	res := newResult()
	res.Case["prop"] = "C12"
	cfg := world.Cfg{NoMethod: true, AutoOptions: true, GlobalTS: 1 + src.Intn("gts", 2), CacheSize: sim.Pick(src, "cache", []int{0, 1, 3})}
	w, err := world.Build(cfg)
	if err != nil {
		res.Trouble = err.Error()
		return res
	}
	routes := []c12Route{
		{"GET", "/u/{a}", func(t string) (string, string) { return "sim.invalid", "/u/" + t }, false, nil},
		{"GET", "/v/{a}/f/*{b}", func(t string) (string, string) { return "sim.invalid", "/v/" + t + "/f/x/" + t }, false, nil},
		{"GET", "/w/{a}/", func(t string) (string, string) { return "sim.invalid", "/w/" + t }, true, nil},
		{"GET", "/x/{a}/g{b}", func(t string) (string, string) { return "sim.invalid", "/x/" + t + "/g" + t + "/" }, true, nil},
		{"GET", "h{h}.sim/y/{a}", func(t string) (string, string) { return "h" + t + ".sim", "/y/" + t }, false, nil},
		{"POST", "/u/{a}", func(t string) (string, string) { return "sim.invalid", "/u/" + t }, false, nil},
	}
	set := model.NewSet()
	for i, r := range routes {
		p, err := model.Parse(r.Pattern)
		if err != nil {
			res.Trouble = err.Error()
			return res
		}
		if _, err := w.R.Handle(r.Method, r.Pattern, world.Handler(i+1), world.FoxOpts(i+1, world.RouteOpt{})...); err != nil {
			res.Trouble = err.Error()
			return res
		}
		set.Insert(world.ModelRoute(cfg, r.Method, p, i+1, world.RouteOpt{}))
	}
	// generated routes next to the fixed ones (hostname-heavy, wildcard-heavy): the shape of the tree decides which
	// lookups backtrack, record parameters and drop them again - on the handler-visible context during Allow scans
	if ngen := src.Intn("genroutes", 6); ngen > 0 {
		pool := world.GenPool(src, world.PoolCfg{Size: ngen, MaxSegs: 1 + src.Intn("maxsegs", 4), Hosts: true, HostHeavy: true, WildHeavy: true, TSlash: 2})
		for _, pat := range pool {
			method := sim.Pick(src, "gmethod", []string{"GET", "GET", "POST"})
			tag := len(routes) + 1
			mr := world.ModelRoute(cfg, method, pat, tag, world.RouteOpt{})
			if len(set.Conflicts(method, pat)) > 0 || set.Insert(mr) != nil {
				continue
			}
			if _, err := w.R.Handle(method, pat.Raw, world.Handler(tag), world.FoxOpts(tag, world.RouteOpt{})...); err != nil {
				res.Trouble = fmt.Sprintf("generated route %s %s: %v", method, pat.Raw, err)
				return res
			}
			pat := pat
			mk := func(t string, v int) (string, string) {
				var ps []model.Param
				n := 0
				for _, tk := range pat.Toks {
					if tk.Kind == model.TStatic {
						continue
					}
					val := t
					if v&(1<<n) != 0 {
						val = []string{"b", "a", "ab", "c"}[(v+n)%4]
					} else if tk.Kind == model.TCatch {
						val = t + "/" + t
					}
					n++
					ps = append(ps, model.Param{Key: tk.Name, Value: val})
				}
				full, _ := pat.Substitute(ps)
				i := strings.IndexByte(full, '/')
				if i == 0 {
					return "sim.invalid", full
				}
				return full[:i], full[i:]
			}
			routes = append(routes, c12Route{Method: method, Pattern: pat.Raw, Mk: func(t string) (string, string) { return mk(t, 0) }, MkVar: mk})
			res.inc("generated_routes")
		}
	}
	var routeDesc []string
	for _, r := range routes {
		routeDesc = append(routeDesc, r.Method+" "+r.Pattern)
	}
	res.Case["routes"] = routeDesc
	shapes := []string{"seq", "lookup-clone", "nomethod", "options", "hijack", "direct", "direct", "tsr", "redirect-or-ignore", "notfound", "nomethod", "options", "lookup", "lookup-noclose", "clonewith", "clone", "clone"}
	type reqPlan struct {
		Shape   string
		Route   int
		Yields  int
		Rerange bool // range the task's kept iterator sequences again while this request is in flight
		CloneLate bool // shape clone: the clone is taken after the response was written, then the original's headers change
		MutReq    bool // with CloneLate: the live request's URL and headers are then rewritten in place
		CW        bool // any shape: the handler (route or special) also takes a CloneWith copy, as a writer-wrapping middleware would
		CWSame    bool // ... with the writer and request the context already carries
		NoQuery bool // the request has no query string; its handler writes a value of its own into QueryParams()
		Rewrite bool // the handler replaces the request by one with a longer query (SetRequest) after having read the query
		Via     int  // how a route handler answers: 0 WriteHeader+Write, 1 Context.String, 2 Context.Blob, 3 Context.Stream
		FailAt  int  // the connection accepts this many body bytes and then fails (-1: never)
		Var     int  // generated routes: which parameters take a value that is also a static text (drives backtracking)
	}
	nclients := 1 + src.Intn("clients", 3)
	plans := make([][]reqPlan, nclients)
	for c := range plans {
		for i, n := 0, 2+src.Intn("nreq", 6); i < n; i++ {
			plans[c] = append(plans[c], reqPlan{Shape: sim.Pick(src, "shape", shapes), Route: src.Intn("route", len(routes)), Yields: src.Intn("yields", 3), Rerange: src.Intn("rerange", 3) == 0, NoQuery: src.Intn("noquery", 4) == 0, CloneLate: sim.Bool(src, "clonelate"), MutReq: sim.Bool(src, "mutreq"), CW: src.Intn("alsoclonewith", 4) == 3, CWSame: src.Intn("clonewithsame", 3) == 2, Var: sim.Pick(src, "pvar", []int{0, 0, 1, 2, 3, 5, 6, 7}), Rewrite: src.Intn("rewritequery", 4) == 3, Via: sim.Pick(src, "answervia", []int{0, 0, 1, 2, 3}), FailAt: sim.Pick(src, "connfailsat", []int{-1, -1, -1, 0, 1, 2, 4})})
		}
	}
	withWriter := src.Intn("writer", 2) == 1
	nwrites := 1 + src.Intn("nwrites", 5)

	s := sim.NewSched(src)
	s.KeepTrace = o.Trace
	drawPolicy(src, s)
	fails := make([]string, nclients)
	reobserved := make([]int, nclients)
	cloneChecks := make([]int, nclients)
	seqRanges := make([]int, nclients)

	for ci := 0; ci < nclients; ci++ {
		ci := ci
		s.Go(fmt.Sprintf("client%d", ci), func(*sim.Task) {
			var clones []*c12Clone
			var kept []*c12Seq
			fail := func(format string, args ...any) {
				if fails[ci] == "" {
					fails[ci] = fmt.Sprintf(format, args...)
				}
			}
			checkClones := func(when string) {
				for _, cl := range clones {
					fp := ctxFingerprint(cl.c)
					cloneChecks[ci]++
					cl.seen++
					if fp != cl.first {
						fail("clone of request %s changed %s: %s became %s", cl.tok, when, cl.first, fp)
					}
					if ot := otherTokens(fp, cl.tok); len(ot) > 0 {
						fail("clone of request %s shows data of %v: %s", cl.tok, ot, fp)
					}
					if cl.seen == 1 {
						// a copy is a Context like any other: what wraps a writer (CloneWith) can be derived from it, later
						// and elsewhere, and shows the copy's route and parameters
						func() {
							defer func() {
								if p := recover(); p != nil {
									fail("CloneWith on the clone of request %s panicked: %v", cl.tok, p)
								}
							}()
							cw := cl.c.CloneWith(world.NewRW(world.NewConn()), cl.c.Request())
							if cw.Pattern() != cl.c.Pattern() || world.FmtParams(world.CollectParams(cw)) != world.FmtParams(world.CollectParams(cl.c)) {
								fail("CloneWith on the clone of request %s differs from it: pattern %q, params [%s]", cl.tok, cw.Pattern(), world.FmtParams(world.CollectParams(cw)))
							}
							cw.Close()
						}()
					}
				}
			}
			rerange := func(when string) {
				for _, k := range kept {
					seqRanges[ci]++
					if got := collectSeq(k.seq); got != k.first {
						fail("the sequence %s yields [%s] when ranged again %s, it yielded [%s] the first time", k.what, got, when, k.first)
					}
				}
			}
			for qi, pl := range plans[ci] {
				if fails[ci] != "" {
					break
				}
				tok := fmt.Sprintf("t%d%02dx", ci+1, qi)
				r := routes[pl.Route]
				host, path := r.Mk(tok)
				if r.MkVar != nil {
					host, path = r.MkVar(tok, pl.Var)
				}
				method := r.Method
				if pl.Shape == "seq" {
					it := w.R.Iter()
					for _, k := range []*c12Seq{
						{what: fmt.Sprintf("Iter.Reverse(%s%s)", host, path), seq: it.Reverse(it.Methods(), host, path)},
						{what: fmt.Sprintf("Iter.Routes(%s)", r.Pattern), seq: it.Routes(it.Methods(), r.Pattern)},
						{what: "Iter.Prefix(/u)", seq: it.Prefix(it.Methods(), "/u")},
					} {
						k.first = collectSeq(k.seq)
						if k.first == "" {
							fail("the sequence %s yields nothing", k.what)
						}
						kept = append(kept, k)
					}
					s.Yield(sim.PtUser)
					continue
				}
				wantKind := model.KRoute
				switch pl.Shape {
				case "tsr", "redirect-or-ignore":
					// toggle the slash: served by the route (ignore) or redirected (redirect), depending on the run
					if strings.HasSuffix(path, "/") {
						path = path[:len(path)-1]
					} else {
						path += "/"
					}
				case "notfound":
					path = "/none/" + tok
				case "nomethod":
					method = "PURGE"
				case "options":
					method = "OPTIONS"
				}
				sv := set.Serve(w.ModelCfg(), method, host, path, path, model.MatchOpts{})
				wantKind = sv.Kind
				if alt := set.Serve(w.ModelCfg(), method, host, path, path, model.MatchOpts{AllowLeadingSlashCapture: true}); alt.Kind != sv.Kind || fmtMatch(alt.Match) != fmtMatch(sv.Match) {
					continue // documented ambiguity (capture starting with '/'): not this property's business
				}
				status := 200 + (ci*17+qi)%50
				bodyLen := (ci + qi) % 7
				rawQuery, wantQTok := "tok="+tok, tok
				if pl.NoQuery && pl.Shape != "clonewith" && !strings.HasPrefix(pl.Shape, "lookup") {
					rawQuery, wantQTok = "", ""
				}
				observe := func(c fox.Context, when string) {
					fp := ctxFingerprint(c)
					if c.Request() == nil || c.Writer() == nil {
						fail("request %s (%s %s%s, %s) %s: %s", tok, method, host, path, pl.Shape, when, fp)
						return
					}
					if ot := otherTokens(fp, tok); len(ot) > 0 {
						fail("request %s (%s %s%s, %s) %s: the context shows data of %v: %s", tok, method, host, path, pl.Shape, when, ot, fp)
					}
					if c.QueryParam("tok") != wantQTok || c.Header("X-Token") != tok || c.Method() != method || c.Path() != path || c.Host() != host {
						fail("request %s %s: request getters do not show the current request: %s", tok, when, fp)
					}
					if sv.Kind == model.KRoute {
						if world.TagOf(c.Route()) != sv.Route.Tag || c.Pattern() != sv.Route.Pattern || c.Scope() != fox.RouteHandler {
							fail("request %s %s: route/pattern/scope are not those of %s: %s", tok, when, sv.Route.Pattern, fp)
						}
						if got := world.FmtParams(world.CollectParams(c)); got != world.FmtParams(sv.Params) {
							fail("request %s %s: parameters [%s], expected [%s]", tok, when, got, world.FmtParams(sv.Params))
						}
					} else if c.Route() != nil || c.Pattern() != "" || len(world.CollectParams(c)) != 0 {
						fail("request %s %s: a %s handler sees route data: %s", tok, when, sv.Kind, fp)
					}
				}
				inner := func(c fox.Context, h *world.Hit) {
					if c.Writer().Written() || c.Writer().Status() != 200 || c.Writer().Size() != 0 {
						fail("request %s: the writer does not start clean: status=%d size=%d written=%v", tok, c.Writer().Status(), c.Writer().Size(), c.Writer().Written())
					}
					if v := c.Writer().Header().Get("X-Resp"); v != "" {
						fail("request %s: response headers already carry X-Resp=%s", tok, v)
					}
					observe(c, "at handler entry")
					if rawQuery == "" {
						if n := len(c.QueryParams()); n != 0 {
							fail("request %s has no query string, its handler sees query values %q", tok, c.QueryParams().Encode())
						}
						c.QueryParams().Set("seen", tok) // the values are this request's own: writing into them is its business
					}
					c.SetHeader("X-Resp", tok)
					if pl.Rewrite && rawQuery != "" {
						// a rewriting middleware: the query has been read through the context, then the request is replaced
						// by one with another query (same token): from then on the context answers for the request it carries
						_ = c.QueryParam("tok")
						r2 := c.Request().Clone(c.Request().Context())
						r2.URL.RawQuery = rawQuery + "&rewritten=" + tok
						c.SetRequest(r2)
						if got, want := c.QueryParams().Encode(), r2.URL.Query().Encode(); got != want || c.QueryParam("rewritten") != tok {
							fail("request %s: after SetRequest with the query %q the context reports the query values %q", tok, r2.URL.RawQuery, got)
						}
					}
					for y := 0; y < pl.Yields; y++ {
						s.Yield(sim.PtHandler)
						reobserved[ci]++
						observe(c, fmt.Sprintf("after yield %d", y+1))
					}
					if pl.Rerange && len(kept) > 0 {
						rerange("inside the handler of request " + tok)
						observe(c, "after ranging kept iterator sequences again")
						if fails[ci] != "" {
							return
						}
					}
					if pl.Shape == "clone" && pl.CloneLate && sv.Kind == model.KRoute {
						// answer first, clone afterwards: the clone carries the response as it is now, and stays like that
						// when the original's headers change later (a trailer, a middleware touching headers after next)
						c.Writer().WriteHeader(status)
						_, _ = c.Writer().Write([]byte(strings.Repeat("b", bodyLen)))
					}
					if pl.Shape == "clone" {
						cl := &c12Clone{c: c.Clone(), tok: tok}
						cl.first = ctxFingerprint(cl.c)
						if ot := otherTokens(cl.first, tok); len(ot) > 0 {
							fail("clone taken in request %s shows data of %v: %s", tok, ot, cl.first)
						}
						clones = append(clones, cl)
						// the handler goes on using its own query values (parsed before the copy was taken, see observe):
						// what it writes into them is not the copy's business
						c.QueryParams().Set("afterclone", tok)
						if pl.CloneLate && sv.Kind == model.KRoute {
							c.SetHeader("X-After-Clone", tok)
							c.Writer().Header().Del("X-Resp")
							c.SetHeader("X-Resp", tok)
							if pl.MutReq {
								// ... and when a later stage rewrites the live request in place (prefix stripping, credential
								// scrubbing): the clone owns its copy of URL and headers
								r := c.Request()
								r.URL.Path = "/rewritten"
								r.URL.RawQuery = "tok=rewritten"
								r.Header.Set("X-Token", "rewritten")
							}
							return
						}
					}
					if pl.Shape == "clonewith" || (pl.CW && pl.Shape != "hijack") {
						req2 := world.NewRequest(method, host, path, "", "tok="+tok, nil)
						req2.Header.Set("X-Token", tok)
						var rw fox.ResponseWriter = world.NewRW(world.NewConn())
						if pl.CWSame && wantQTok == tok {
							// a generic middleware that only sometimes substitutes something: the copy is asked for with the
							// writer and request the context already has - and is still a copy, closed on its own
							req2, rw = c.Request(), c.Writer()
						}
						cc := c.CloneWith(rw, req2)
						if fox.Context(cc) == c {
							fail("request %s: CloneWith returned the context it was called on", tok)
						}
						if cc.Request() != req2 || cc.Writer() != rw {
							fail("request %s: CloneWith does not carry the given request and writer", tok)
						}
						if a, b := world.FmtParams(world.CollectParams(cc)), world.FmtParams(world.CollectParams(c)); a != b || cc.Pattern() != c.Pattern() || cc.Scope() != c.Scope() {
							fail("request %s: CloneWith differs from its origin: params [%s] vs [%s]", tok, a, b)
						}
						check := func(when string) {
							fp := ctxFingerprint(cc)
							if ot := otherTokens(fp, tok); len(ot) > 0 {
								fail("request %s: the CloneWith context shows data of %v %s: %s", tok, ot, when, fp)
							}
							if cc.QueryParam("tok") != tok || cc.QueryParams().Get("tok") != tok || cc.Header("X-Token") != tok || cc.Path() != path {
								fail("request %s: the CloneWith context does not show the request it was given %s: %s", tok, when, fp)
							}
						}
						check("right after CloneWith")
						s.Yield(sim.PtHeld)
						check("after a yield")
						cc.Close()
					}
					if pl.Shape == "hijack" {
						// the connection is taken over (websocket style): whoever gets this pooled context next must find a
						// working writer again
						_, _, _ = c.Writer().Hijack()
						return
					}
					if sv.Kind == model.KRoute {
						body := strings.Repeat("b", bodyLen)
						switch pl.Via {
						case 1:
							_ = c.String(status, "%s", body)
						case 2:
							_ = c.Blob(status, "text/plain", []byte(body))
						case 3:
							_ = c.Stream(status, "text/plain", strings.NewReader(body))
						default:
							c.Writer().WriteHeader(status)
							_, _ = c.Writer().Write([]byte(body))
						}
						// what the handler reads back from its writer is this response's own account, whatever earlier
						// responses (failed ones included) went through the helpers
						if acc := accepted(pl.FailAt, bodyLen); c.Writer().Status() != status || c.Writer().Size() != acc || !c.Writer().Written() {
							fail("request %s: after answering %d with %d body byte(s) (connection accepts %d) the writer reports status=%d size=%d written=%v", tok, status, bodyLen, pl.FailAt, c.Writer().Status(), c.Writer().Size(), c.Writer().Written())
						}
					}
				}
				switch pl.Shape {
				case "lookup", "lookup-noclose", "lookup-clone":
					req := world.NewRequest(method, host, path, "", "tok="+tok, nil)
					req.Header.Set("X-Token", tok)
					rw := world.NewRW(world.NewConn())
					rt, cc, tsr := w.R.Lookup(rw, req)
					m := set.Match(method, host, path, model.MatchOpts{})
					if m.Route == nil {
						if rt != nil {
							fail("request %s: Lookup found %s, the reference finds nothing", tok, rt.Pattern())
						}
						break
					}
					if rt == nil || world.TagOf(rt) != m.Route.Tag || tsr != m.TSR {
						fail("request %s: Lookup %s%s gives %v tsr=%v, expected %s tsr=%v", tok, host, path, rt, tsr, m.Route.Pattern, m.TSR)
						break
					}
					chk := func(when string) {
						if cc.Request() == nil || cc.Writer() == nil {
							fail("request %s: Lookup context %s: %s", tok, when, ctxFingerprint(cc))
							return
						}
						if got := world.FmtParams(world.CollectParams(cc)); got != world.FmtParams(m.Params) {
							fail("request %s: Lookup context %s has parameters [%s], expected [%s]", tok, when, got, world.FmtParams(m.Params))
						}
						if cc.Request() != req || cc.Writer() != fox.ResponseWriter(rw) || cc.QueryParam("tok") != tok || world.TagOf(cc.Route()) != m.Route.Tag || cc.Scope() != fox.RouteHandler {
							fail("request %s: Lookup context %s does not show the current request", tok, when)
						}
						if cc.Writer().Written() || (cc.Writer().Header().Get("X-Resp") != "" && cc.Writer().Header().Get("X-Resp") != tok) {
							fail("request %s: Lookup context %s has a used writer", tok, when)
						}
					}
					chk("after Lookup")
					s.Yield(sim.PtHeld)
					reobserved[ci]++
					chk("after a yield")
					if pl.Rerange && len(kept) > 0 {
						rerange("while the Lookup context of request " + tok + " is held")
						chk("after ranging kept iterator sequences again")
					}
					if pl.Shape == "lookup-clone" {
						// a clone of a context obtained from Lookup: the recycled context's embedded recorder still refers to an
						// earlier request's connection
						rw.Header().Set("X-Resp", tok)
						cl := &c12Clone{c: cc.Clone(), tok: tok}
						cl.first = ctxFingerprint(cl.c)
						if ot := otherTokens(cl.first, tok); len(ot) > 0 {
							fail("clone of the Lookup context of request %s shows data of %v: %s", tok, ot, cl.first)
						}
						if cl.c.Writer().Status() != 200 || cl.c.Writer().Written() || cl.c.Writer().Size() != 0 || cl.c.Writer().Header().Get("X-Resp") != tok {
							fail("clone of the Lookup context of request %s does not mirror the writer in use: %s", tok, cl.first)
						}
						clones = append(clones, cl)
					}
					if pl.Shape != "lookup-noclose" {
						cc.Close()
					}
				default:
					log := &world.ReqLog{Inner: inner}
					req := world.NewRequest(method, host, path, "", rawQuery, log)
					req.Header.Set("X-Token", tok)
					conn := world.NewConn()
					if pl.Shape != "hijack" && !(pl.Shape == "clone" && pl.CloneLate) {
						conn.FailAfter = pl.FailAt
					}
					if pl.Shape == "hijack" {
						w.R.ServeHTTP(conn.Wrap(world.NormCaps(world.Caps{Hijacker: true})), req)
						checkClones(fmt.Sprintf("after request %s", tok))
						s.Yield(sim.PtUser)
						continue
					}
					w.R.ServeHTTP(conn, req)
					last := model.Kind(-1)
					for _, h := range log.Hits {
						last = h.Kind
						if h.Kind == model.KRedirect && (h.HasRoute || h.Pattern != "" || len(h.Params) > 0 || h.Scope != fox.RedirectHandler) {
							fail("request %s: the redirect handler sees route data: %+v", tok, h)
						}
					}
					if last != wantKind {
						fail("request %s (%s %s%s): answered by %s, expected %s", tok, method, host, path, last, wantKind)
					}
					if sv.Kind == model.KRoute && fails[ci] == "" {
						wantBody := strings.Repeat("b", accepted(conn.FailAfter, bodyLen))
						if conn.Explicit != status || string(conn.Body) != wantBody || conn.H.Get("X-Resp") != tok {
							fail("request %s: response status=%d body=%q X-Resp=%s, expected %d/%q/%s", tok, conn.Explicit, conn.Body, conn.H.Get("X-Resp"), status, wantBody, tok)
						}
					}
				}
				checkClones(fmt.Sprintf("after request %s", tok))
				s.Yield(sim.PtUser)
			}
			checkClones("at the end of the task")
		})
	}
	if withWriter {
		s.Go("writer", func(*sim.Task) {
			for i := 0; i < nwrites; i++ {
				pat := fmt.Sprintf("/extra%d/{a}/{b}/{c}", i)
				if i%2 == 0 {
					_, _ = w.R.Handle("GET", pat, world.Handler(50+i), world.FoxOpts(50+i, world.RouteOpt{})...)
				} else {
					_, _ = w.R.Delete("GET", fmt.Sprintf("/extra%d/{a}/{b}/{c}", i-1))
				}
				s.Yield(sim.PtUser)
			}
		})
	}
	out := s.Run()
	res.Leaked = s.Leaked()
	res.Steps = s.Steps
	res.Hash = s.Hash()
	res.add("context_switches", s.Switches)
	var pd []string
	for i, p := range plans {
		pd = append(pd, fmt.Sprintf("client%d: %v", i, p))
	}
	res.Case["config"] = cfg.String()
	res.Case["plans"] = pd
	res.Case["writer"] = withWriter
	if out.Kind != sim.Done {
		if out.Kind == sim.Deadlock {
			res.fail("C12/deadlock", "%s", out.Detail)
		} else if out.Kind == sim.Stalled {
			res.Stack = out.Stack
			res.fail("C12/blocked", "task %s blocked in %s", out.Task.Name, out.State)
		} else {
			res.Trouble = fmt.Sprintf("scheduler: %s %s", out.Kind, out.Detail)
		}
		return res
	}
	for _, t := range s.Tasks {
		if t.Panic != nil {
			res.Stack = t.PanicStack
			if strings.Contains(t.PanicStack, "github.com/tigerwill90/fox.") {
				res.fail("C12/panic", "task %s panicked: %v", t.Name, t.Panic)
			} else {
				for _, f := range fails {
					if f != "" { // the harness tripped over a context it had already found broken
						res.fail("C12/leak", "%s", f)
						return res
					}
				}
				res.Trouble = fmt.Sprintf("task %s panicked in harness code: %v\n%s", t.Name, t.Panic, t.PanicStack)
			}
			return res
		}
	}
	total := 0
	for i, f := range fails {
		total += reobserved[i] + cloneChecks[i]
		res.add("contexts_reobserved_after_yield", reobserved[i])
		res.add("clone_reinspections", cloneChecks[i])
		res.add("kept_sequences_ranged_again", seqRanges[i])
		if f != "" {
			res.fail("C12/leak", "%s", f)
			return res
		}
	}
	res.Checks = total
	res.Nontrivial = total > 0 && (s.Switches > 0 || nclients == 1)
	res.CaseKey = sim.Mix(s.SchedHash, hashStrings(append(pd, routeDesc...)...))
	return res
}
