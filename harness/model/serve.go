package model

import (
	"sort"
	"strings"
)

// Config holds the router-wide options the dispatcher depends on.
type Config struct {
	NoMethod    bool
	AutoOptions bool
}

// Kind of handler that answers a request.
type Kind int

const (
	KRoute Kind = iota
	KRedirect
	KOptions
	KNoMethod
	KNoRoute
)

func (k Kind) String() string {
	if k < 0 || int(k) > 4 {
		return "no recording handler"
	}
	return [...]string{"route", "redirect", "options", "no-method", "no-route"}[k]
}

// Served is the reference outcome of ServeHTTP.
type Served struct {
	Kind     Kind
	Route    *Route  // KRoute: the serving route; KRedirect: the slash-adjusted route the redirect must lead to
	Params   []Param // KRoute (and the adjusted match for KRedirect)
	TSR      bool
	Status   int      // KRedirect: 301/308
	Allow    []string // KOptions, KNoMethod: sorted set
	Adjusted string   // KRedirect: the slash-adjusted request path
	Match    MatchResult
}

// CleanPath is the lexical definition: rooted, no empty, "." or ".." elements; a trailing slash is kept when the
// input ended with a slash or a "." / ".." element and the result is not the root.
func CleanPath(p string) string {
	if p == "" {
		return "/"
	}
	parts := strings.Split(p, "/")
	var st []string
	trailing := false
	for i, e := range parts {
		last := i == len(parts)-1
		switch e {
		case "":
			if last && len(parts) > 1 {
				trailing = true
			}
		case ".":
			if last {
				trailing = true
			}
		case "..":
			if len(st) > 0 {
				st = st[:len(st)-1]
			}
			if last {
				trailing = false
			}
		default:
			st = append(st, e)
		}
	}
	out := "/" + strings.Join(st, "/")
	if trailing && out != "/" {
		out += "/"
	}
	return out
}

// serves reports whether some route of the method serves host+path directly or by ignoring a trailing slash.
func (s *Set) serves(method, host, path string, o MatchOpts) bool {
	m := s.Match(method, host, path, o)
	if m.Route == nil {
		return false
	}
	// a CONNECT request never gets a trailing-slash action: a CONNECT route reached only by ignoring the slash does not serve
	return !m.TSR || (m.Route.IgnoreTS && method != "CONNECT")
}

// Serve is the reference dispatcher. path is the path the router matches on (the raw path when the request has one).
// decodedPath is URL.Path (used for the "/" exception).
func (s *Set) Serve(cfg Config, method, host, path, decodedPath string, o MatchOpts) Served {
	return s.Dispatch(cfg, method, host, path, decodedPath, s.Match(method, host, path, o), o)
}

// Dispatch applies the dispatch rules to a given routing result m.
func (s *Set) Dispatch(cfg Config, method, host, path, decodedPath string, m MatchResult, o MatchOpts) Served {
	if m.Route != nil && !m.TSR {
		return Served{Kind: KRoute, Route: m.Route, Params: m.Params, Match: m}
	}
	if m.Route != nil && m.TSR && method != "CONNECT" && decodedPath != "/" {
		if m.Route.IgnoreTS {
			return Served{Kind: KRoute, Route: m.Route, Params: m.Params, TSR: true, Match: m}
		}
		if m.Route.RedirectTS && path == CleanPath(path) {
			st := 308
			if method == "GET" {
				st = 301
			}
			adj := path + "/"
			if strings.HasSuffix(path, "/") {
				adj = path[:len(path)-1]
			}
			return Served{Kind: KRedirect, Route: m.Route, Params: m.Params, TSR: true, Status: st, Adjusted: adj, Match: m}
		}
	}
	if method == "OPTIONS" && cfg.AutoOptions {
		var allow []string
		if path == "*" {
			// every method that has routes - OPTIONS itself included (it is added below anyway; a router whose only
			// routes are OPTIONS routes still has "a method that has routes")
			allow = append(allow, s.Methods()...)
		} else {
			for _, mm := range s.Methods() {
				if s.serves(mm, host, path, o) {
					allow = append(allow, mm)
				}
			}
		}
		if len(allow) > 0 {
			allow = addSorted(allow, "OPTIONS")
			return Served{Kind: KOptions, Allow: allow, Match: m}
		}
		return Served{Kind: KNoRoute, Match: m}
	}
	if cfg.NoMethod {
		var allow []string
		for _, mm := range s.Methods() {
			if mm != method && s.serves(mm, host, path, o) {
				allow = append(allow, mm)
			}
		}
		if len(allow) > 0 {
			if cfg.AutoOptions {
				// an OPTIONS request for this target would be answered by the automatic handler
				allow = addSorted(allow, "OPTIONS")
			}
			sort.Strings(allow)
			return Served{Kind: KNoMethod, Allow: allow, Match: m}
		}
	}
	return Served{Kind: KNoRoute, Match: m}
}

func addSorted(xs []string, v string) []string {
	for _, x := range xs {
		if x == v {
			sort.Strings(xs)
			return xs
		}
	}
	xs = append(xs, v)
	sort.Strings(xs)
	return xs
}
