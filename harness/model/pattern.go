// Package model is the executable reference for fox's observable behaviour. It is written from the property
// statements and the README, not from fox's code: patterns are tokenised naively, routes live in a Go map, and the
// matcher is a depth-first search over an uncompressed token trie rebuilt on every call.
package model

import (
	"errors"
	"strings"
)

// TokKind is the kind of a pattern token.
type TokKind uint8

const (
	TStatic TokKind = iota // one literal byte
	TParam                 // {name}
	TCatch                 // *{name}
)

// Tok is one token of a pattern.
type Tok struct {
	Kind   TokKind
	B      byte   // TStatic
	Name   string // TParam, TCatch
	InHost bool
	Off    int // byte offset of the token in the pattern text
}

// Pattern is a tokenised valid pattern.
type Pattern struct {
	Raw     string
	Host    string // "" for path-only patterns
	Path    string
	Toks    []Tok
	NParams int
}

var ErrBadPattern = errors.New("model: malformed pattern")

// Parse tokenises and validates a pattern per the documented grammar: a leading slash, or an LDH hostname followed
// by a slash; wildcards {name} / *{name} with a non-empty name, at most one per path segment or host label and only
// at its end; no catch-all in hostnames; no two catch-alls separated only by a slash.
func Parse(raw string) (*Pattern, error) {
	slash := strings.IndexByte(raw, '/')
	if slash < 0 {
		return nil, ErrBadPattern
	}
	p := &Pattern{Raw: raw, Host: raw[:slash], Path: raw[slash:]}
	if p.Host != "" {
		labels := strings.Split(p.Host, ".")
		off := 0
		total := 0
		nonNumeric := false
		for li, lab := range labels {
			if li > 0 {
				p.Toks = append(p.Toks, Tok{Kind: TStatic, B: '.', InHost: true, Off: off - 1})
			}
			static, kind, name, ok := splitSegment(lab)
			if !ok || kind == TCatch {
				return nil, ErrBadPattern
			}
			if static == "" && kind == TStatic {
				return nil, ErrBadPattern // empty label
			}
			if len(static) > 63 {
				return nil, ErrBadPattern
			}
			for i := 0; i < len(static); i++ {
				c := static[i]
				switch {
				case c >= 'a' && c <= 'z', c >= 'A' && c <= 'Z', c == '_':
					nonNumeric = true
				case c >= '0' && c <= '9':
				case c == '-':
					nonNumeric = true
					if i == 0 || (i == len(static)-1 && kind == TStatic) {
						return nil, ErrBadPattern
					}
				default:
					return nil, ErrBadPattern
				}
				p.Toks = append(p.Toks, Tok{Kind: TStatic, B: c, InHost: true, Off: off + i})
			}
			total += len(static)
			if kind == TParam {
				nonNumeric = true
				p.Toks = append(p.Toks, Tok{Kind: TParam, Name: name, InHost: true, Off: off + len(static)})
				p.NParams++
			}
			off += len(lab) + 1
		}
		total += len(labels) - 1
		if total > 255 || !nonNumeric {
			return nil, ErrBadPattern
		}
	}
	// path: segments after each '/'
	segs := strings.Split(p.Path[1:], "/")
	off := slash
	prevCatchFull := false
	for _, seg := range segs {
		p.Toks = append(p.Toks, Tok{Kind: TStatic, B: '/', Off: off})
		off++
		static, kind, name, ok := splitSegment(seg)
		if !ok {
			return nil, ErrBadPattern
		}
		for i := 0; i < len(static); i++ {
			p.Toks = append(p.Toks, Tok{Kind: TStatic, B: static[i], Off: off + i})
		}
		switch kind {
		case TParam:
			p.Toks = append(p.Toks, Tok{Kind: TParam, Name: name, Off: off + len(static)})
			p.NParams++
		case TCatch:
			if prevCatchFull && static == "" {
				return nil, ErrBadPattern // /*{a}/*{b}
			}
			p.Toks = append(p.Toks, Tok{Kind: TCatch, Name: name, Off: off + len(static)})
			p.NParams++
		}
		prevCatchFull = kind == TCatch
		off += len(seg)
	}
	return p, nil
}

// splitSegment splits one path segment or host label into its static prefix and optional trailing wildcard.
func splitSegment(seg string) (static string, kind TokKind, name string, ok bool) {
	open := strings.IndexAny(seg, "{*}")
	if open < 0 {
		return seg, TStatic, "", true
	}
	static = seg[:open]
	rest := seg[open:]
	kind = TParam
	if rest[0] == '*' {
		kind = TCatch
		rest = rest[1:]
	}
	if len(rest) < 3 || rest[0] != '{' || rest[len(rest)-1] != '}' {
		return "", 0, "", false
	}
	name = rest[1 : len(rest)-1]
	if name == "" || strings.ContainsAny(name, "{}*/") {
		return "", 0, "", false
	}
	return static, kind, name, true
}

// Param is one captured wildcard value.
type Param struct{ Key, Value string }

// Substitute rebuilds host+path from the pattern and captured values (in pattern order).
func (p *Pattern) Substitute(ps []Param) (string, bool) {
	var sb strings.Builder
	i := 0
	for _, t := range p.Toks {
		switch t.Kind {
		case TStatic:
			sb.WriteByte(t.B)
		default:
			if i >= len(ps) || ps[i].Key != t.Name {
				return "", false
			}
			sb.WriteString(ps[i].Value)
			i++
		}
	}
	return sb.String(), i == len(ps)
}

// WildcardAt reports the wildcard token starting at byte offset off, if any.
func (p *Pattern) WildcardAt(off int) (Tok, bool) {
	for _, t := range p.Toks {
		if t.Kind != TStatic && t.Off == off {
			return t, true
		}
	}
	return Tok{}, false
}
