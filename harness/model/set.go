package model

import (
	"errors"
	"sort"
	"strings"
)

// Route is the model's record of a registered route.
type Route struct {
	Method     string
	Pattern    string
	Pat        *Pattern
	Tag        int // unique per registration (Handle/Update create a new tag)
	IgnoreTS   bool
	RedirectTS bool
	MW         []int // ids of route-specific middleware, in order
	Resolver   int   // 0 inherit-none, see world
}

type key struct{ method, pattern string }

// Set is the sequential map keyed by (method, pattern).
type Set struct {
	m     map[key]*Route
	cache []*Route
}

func NewSet() *Set { return &Set{m: map[key]*Route{}} }

// Clone copies the set (routes are immutable values).
func (s *Set) Clone() *Set {
	n := &Set{m: make(map[key]*Route, len(s.m))}
	for k, v := range s.m {
		n.m[k] = v
	}
	return n
}

func (s *Set) Len() int { return len(s.m) }

func (s *Set) Get(method, pattern string) *Route { return s.m[key{method, pattern}] }

// sorted returns the routes in a canonical order (method, pattern).
func (s *Set) sorted() []*Route {
	if s.cache != nil {
		return s.cache
	}
	out := make([]*Route, 0, len(s.m))
	for _, r := range s.m {
		out = append(out, r)
	}
	sort.Slice(out, func(i, j int) bool {
		if out[i].Method != out[j].Method {
			return out[i].Method < out[j].Method
		}
		return out[i].Pattern < out[j].Pattern
	})
	s.cache = out
	return out
}

// Routes returns all routes in canonical order.
func (s *Set) Routes() []*Route { return s.sorted() }

// Methods returns the methods that have at least one route, sorted.
func (s *Set) Methods() []string {
	seen := map[string]bool{}
	var out []string
	for _, r := range s.sorted() {
		if !seen[r.Method] {
			seen[r.Method] = true
			out = append(out, r.Method)
		}
	}
	return out
}

// Error classes of mutating calls.
var (
	ErrExist    = errors.New("model: route exists")
	ErrNotFound = errors.New("model: route not found")
	ErrConflict = errors.New("model: route conflict")
	ErrInvalid  = errors.New("model: invalid route")
)

// ConflictError carries the conflicting registered patterns.
type ConflictError struct{ Matched []string }

func (e *ConflictError) Error() string {
	return "model: conflict with " + strings.Join(e.Matched, ", ")
}
func (e *ConflictError) Unwrap() error { return ErrConflict }

// ValidMethod: registration requires upper-case ASCII letters only.
func ValidMethod(m string) bool {
	if m == "" {
		return false
	}
	for i := 0; i < len(m); i++ {
		if m[i] < 'A' || m[i] > 'Z' {
			return false
		}
	}
	return true
}

// Conflicts returns the registered patterns of the method that declare a different wildcard of the same kind at the
// same position as p: identical text up to some offset at which both have a wildcard of the same kind with
// different names.
func (s *Set) Conflicts(method string, p *Pattern) []string {
	var out []string
	for _, r := range s.sorted() {
		if r.Method != method {
			continue
		}
		q := r.Pat
		for _, t := range p.Toks {
			if t.Kind == TStatic {
				continue
			}
			if t.Off > len(q.Raw) || q.Raw[:t.Off] != p.Raw[:t.Off] {
				break
			}
			u, ok := q.WildcardAt(t.Off)
			if !ok {
				break
			}
			if u.Kind != t.Kind {
				break
			}
			if u.Name != t.Name {
				out = append(out, q.Raw)
				break
			}
		}
	}
	sort.Strings(out)
	return out
}

// Insert adds a route. The caller has validated method and handler.
func (s *Set) Insert(r *Route) error {
	if s.m[key{r.Method, r.Pattern}] != nil {
		return ErrExist
	}
	if c := s.Conflicts(r.Method, r.Pat); len(c) > 0 {
		return &ConflictError{Matched: c}
	}
	s.m[key{r.Method, r.Pattern}] = r
	s.cache = nil
	return nil
}

// Update replaces a registered route.
func (s *Set) Update(r *Route) error {
	if s.m[key{r.Method, r.Pattern}] == nil {
		return ErrNotFound
	}
	s.m[key{r.Method, r.Pattern}] = r
	s.cache = nil
	return nil
}

// Delete removes a route and returns it.
func (s *Set) Delete(method, pattern string) (*Route, error) {
	r := s.m[key{method, pattern}]
	if r == nil {
		return nil, ErrNotFound
	}
	delete(s.m, key{method, pattern})
	s.cache = nil
	return r, nil
}

// Truncate removes every route of the given methods (all when none is given).
func (s *Set) Truncate(methods ...string) {
	for k := range s.m {
		if len(methods) == 0 {
			delete(s.m, k)
			continue
		}
		for _, m := range methods {
			if k.method == m {
				delete(s.m, k)
				break
			}
		}
	}
	s.cache = nil
}

// Prefix returns the routes of the methods whose pattern starts with prefix.
func (s *Set) Prefix(methods []string, prefix string) []*Route {
	var out []*Route
	for _, r := range s.sorted() {
		for _, m := range methods {
			if r.Method == m && strings.HasPrefix(r.Pattern, prefix) {
				out = append(out, r)
				break
			}
		}
	}
	return out
}

// Fingerprint is a canonical rendering of the set (method pattern tag), used to compare states.
func (s *Set) Fingerprint() string {
	var sb strings.Builder
	for _, r := range s.sorted() {
		sb.WriteString(r.Method)
		sb.WriteByte(' ')
		sb.WriteString(r.Pattern)
		sb.WriteByte('#')
		sb.WriteString(itoa(r.Tag))
		sb.WriteByte('\n')
	}
	return sb.String()
}

func itoa(v int) string {
	if v == 0 {
		return "0"
	}
	neg := v < 0
	if neg {
		v = -v
	}
	var b [20]byte
	i := len(b)
	for v > 0 {
		i--
		b[i] = byte('0' + v%10)
		v /= 10
	}
	if neg {
		i--
		b[i] = '-'
	}
	return string(b[i:])
}
