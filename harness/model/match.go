package model

import "strings"

// tnode is a node of the uncompressed token trie.
type tnode struct {
	static    map[byte]*tnode
	param     *tnode
	paramName string
	catch     *tnode
	catchName string
	route     *Route
}

func (n *tnode) insert(toks []Tok, r *Route) {
	cur := n
	for _, t := range toks {
		switch t.Kind {
		case TStatic:
			if cur.static == nil {
				cur.static = map[byte]*tnode{}
			}
			nx := cur.static[t.B]
			if nx == nil {
				nx = &tnode{}
				cur.static[t.B] = nx
			}
			cur = nx
		case TParam:
			if cur.param == nil {
				cur.param = &tnode{}
				cur.paramName = t.Name
			}
			cur = cur.param
		case TCatch:
			if cur.catch == nil {
				cur.catch = &tnode{}
				cur.catchName = t.Name
			}
			cur = cur.catch
		}
	}
	cur.route = r
}

// matcher carries the options of one search.
type matcher struct {
	params           []Param
	noCatchLast      bool // the final byte of the text must be matched by a literal pattern byte (added trailing slash)
	allowLeadSlash   bool // a catch-all capture may start with '/'
	hostLen          int  // bytes of the text that belong to the host
	total            int
	Backtracks       int
	usedLeadingSlash bool
	// dead remembers (node, position) pairs below which nothing matches: whether text[pos:] matches below a node does
	// not depend on what was captured on the way there, so a failed sub-search is never repeated. Without it, several
	// catch-alls over a path of a few thousand bytes make the search exponential (a 2.9 KB path took minutes).
	dead map[deadKey]struct{}
}

type deadKey struct {
	n   *tnode
	pos int
}

// walk tries to match text[pos:] below n. Priority at each position: static byte, then named parameter, then
// catch-all; the first complete match wins.
func (m *matcher) walk(n *tnode, text string, pos int) *Route {
	if pos == len(text) {
		return n.route
	}
	k := deadKey{n, pos}
	if _, ok := m.dead[k]; ok {
		return nil
	}
	r := m.walk1(n, text, pos)
	if r == nil {
		if m.dead == nil {
			m.dead = map[deadKey]struct{}{}
		}
		m.dead[k] = struct{}{}
	}
	return r
}

func (m *matcher) walk1(n *tnode, text string, pos int) *Route {
	if nx := n.static[text[pos]]; nx != nil {
		// consumed one literal byte
		if r := m.walk(nx, text, pos+1); r != nil {
			return r
		}
		m.Backtracks++
	}
	if n.param != nil {
		// one non-empty segment (or host label part)
		end := pos
		if pos < m.hostLen {
			for end < m.hostLen && text[end] != '.' {
				end++
			}
		} else {
			for end < len(text) && text[end] != '/' {
				end++
			}
		}
		if end > pos {
			m.params = append(m.params, Param{n.paramName, text[pos:end]})
			if r := m.walk(n.param, text, end); r != nil {
				return r
			}
			m.params = m.params[:len(m.params)-1]
			m.Backtracks++
		}
	}
	if n.catch != nil && pos >= m.hostLen {
		leading := text[pos] == '/'
		if !leading || m.allowLeadSlash {
			// infix: the capture ends before some later '/', tried left to right
			if len(n.catch.static) > 0 || n.catch.param != nil || n.catch.catch != nil {
				for i := pos + 1; i < len(text); i++ {
					if text[i] != '/' {
						continue
					}
					m.params = append(m.params, Param{n.catchName, text[pos:i]})
					if r := m.walk(n.catch, text, i); r != nil {
						if leading {
							m.usedLeadingSlash = true
						}
						return r
					}
					m.params = m.params[:len(m.params)-1]
				}
			}
			// suffix: the whole non-empty remainder
			if n.catch.route != nil && !m.noCatchLast {
				m.params = append(m.params, Param{n.catchName, text[pos:]})
				if leading {
					m.usedLeadingSlash = true
				}
				return n.catch.route
			}
			m.Backtracks++
		}
	}
	return nil
}

// MatchResult is the outcome of routing one (method, host, path).
type MatchResult struct {
	Route      *Route
	Params     []Param
	TSR        bool // the route matches only after adding/removing a trailing slash
	ViaHost    bool // found among the hostname routes
	Backtracks int  // lower-priority alternatives that had to be tried (measure of non-triviality)
	LeadSlash  bool // the match relies on a catch-all capture starting with '/'
}

// StripHost removes a port and one trailing dot.
func StripHost(h string) string {
	if h == "" {
		return h
	}
	if strings.HasPrefix(h, "[") {
		if i := strings.IndexByte(h, ']'); i > 0 {
			rest := h[i+1:]
			if rest == "" || (rest[0] == ':' && allDigits(strings.TrimSuffix(rest[1:], "."))) {
				if rest == "" {
					return h // no port: unchanged
				}
				return strings.TrimSuffix(h[1:i], ".")
			}
		}
		return h
	}
	if c := strings.Count(h, ":"); c == 1 {
		i := strings.IndexByte(h, ':')
		if allDigits(strings.TrimSuffix(h[i+1:], ".")) { // (a dot after the port goes with it, as it always did)
			h = h[:i]
		} else {
			return h
		}
	} else if c > 1 {
		return h
	}
	return strings.TrimSuffix(h, ".")
}

func allDigits(s string) bool {
	for i := 0; i < len(s); i++ {
		if s[i] < '0' || s[i] > '9' {
			return false
		}
	}
	return true
}

// MatchOpts tunes the reference matcher where the documents leave a choice.
type MatchOpts struct {
	AllowLeadingSlashCapture bool
}

// Match routes (method, host, path) over the set: hostname routes first (direct, then slash-adjusted), then path-only
// routes (direct, then slash-adjusted).
func (s *Set) Match(method, hostPort, path string, o MatchOpts) MatchResult {
	var hostRoutes, pathRoutes []*Route
	for _, r := range s.sorted() {
		if r.Method != method {
			continue
		}
		if r.Pat.Host != "" {
			hostRoutes = append(hostRoutes, r)
		} else {
			pathRoutes = append(pathRoutes, r)
		}
	}
	host := StripHost(hostPort)
	if len(hostRoutes) > 0 && host != "" {
		if res, ok := matchGroup(hostRoutes, host, path, o); ok {
			res.ViaHost = true
			return res
		}
	}
	if len(pathRoutes) > 0 {
		if res, ok := matchGroup(pathRoutes, "", path, o); ok {
			return res
		}
	}
	return MatchResult{}
}

func matchGroup(routes []*Route, host, path string, o MatchOpts) (MatchResult, bool) {
	root := &tnode{}
	for _, r := range routes {
		root.insert(r.Pat.Toks, r)
	}
	if path != "" && path[0] != '/' {
		// "*" (server-wide OPTIONS) and other rootless targets: every pattern's path starts with '/', nothing matches,
		// and nothing of such a target may be taken for a host label
		return MatchResult{}, false
	}
	text := host + path
	m := &matcher{hostLen: len(host), allowLeadSlash: o.AllowLeadingSlashCapture}
	if r := m.walk(root, text, 0); r != nil {
		return MatchResult{Route: r, Params: append([]Param(nil), m.params...), Backtracks: m.Backtracks, LeadSlash: m.usedLeadingSlash}, true
	}
	bt := m.Backtracks
	if path == "/" {
		return MatchResult{Backtracks: bt}, false
	}
	// (the empty path of an absolute-form request target without a path is "a path other than '/'": adding the slash
	// gives the root)
	// slash-adjusted form
	m = &matcher{hostLen: len(host), allowLeadSlash: o.AllowLeadingSlashCapture}
	var adj string
	if strings.HasSuffix(path, "/") {
		adj = host + path[:len(path)-1]
	} else {
		adj = text + "/"
		m.noCatchLast = true
	}
	if r := m.walk(root, adj, 0); r != nil {
		return MatchResult{Route: r, Params: append([]Param(nil), m.params...), TSR: true, Backtracks: bt + m.Backtracks, LeadSlash: m.usedLeadingSlash}, true
	}
	return MatchResult{Backtracks: bt + m.Backtracks}, false
}

// MatchPathOnly routes over the path-only routes of the method, ignoring hostname routes (the fallback step alone).
func (s *Set) MatchPathOnly(method, path string, o MatchOpts) MatchResult {
	var pathRoutes []*Route
	for _, r := range s.sorted() {
		if r.Method == method && r.Pat.Host == "" {
			pathRoutes = append(pathRoutes, r)
		}
	}
	if len(pathRoutes) > 0 {
		if res, ok := matchGroup(pathRoutes, "", path, o); ok {
			return res
		}
	}
	return MatchResult{}
}
