package world

import (
	"iter"
	"context"
	"errors"
	"fmt"
	"net/http"
	"net/url"
	"sort"
	"strings"

	"github.com/tigerwill90/fox"

	"verif/harness/model"
	"verif/harness/sim"
)

// TagKey is the annotation key under which every route created by the harness carries its unique tag.
type TagKey struct{}

// RouteOpt is the abstract form of per-route options.
type RouteOpt struct {
	TS int   // trailing-slash options given to the route, see tsSeq: 0 inherit, 1 ignore(true), 2 redirect(true), 3 ignore(false)+redirect(false), 4 redirect(false), 5 ignore(false), 6 ignore(true)+redirect(true), 7 redirect(true)+ignore(true)
	MW []int // ids of route-specific middleware
}

// Cfg is the generated router configuration.
type Cfg struct {
	NoMethod    bool
	AutoOptions bool
	GlobalTS    int // 0 none, 1 ignore, 2 redirect
	CacheSize   int // copy-on-write cache capacity (0 = default)
	MaxParams   int // WithMaxRouteParams (0 = default)
	MaxKeyBytes int // WithMaxRouteParamKeyBytes (0 = default)
	// NoRedirectSpy leaves out the observer middleware on the built-in redirect handler, so that a router can be built
	// without any global middleware at all (requests answered by that handler then leave no Hit).
	NoRedirectSpy bool
	// ExtrasFirst puts the caller's options (middleware) before the handler and trailing-slash options instead of
	// after them: what a middleware wraps must not depend on where its option stands in the list
	ExtrasFirst bool
	// BuiltinHandlers leaves fox's own no-route, no-method and options handlers in place (switched on through
	// WithNoMethod / WithAutoOptions) instead of the recording ones: such answers are visible as status and headers only.
	BuiltinHandlers bool
}

func (c Cfg) String() string {
	s := fmt.Sprintf("{405:%v options:%v ts:%d cache:%d", c.NoMethod, c.AutoOptions, c.GlobalTS, c.CacheSize)
	if c.MaxParams > 0 || c.MaxKeyBytes > 0 {
		s += fmt.Sprintf(" maxparams:%d maxkeybytes:%d", c.MaxParams, c.MaxKeyBytes)
	}
	return s + "}"
}

// Hit is what a handler observed through its Context.
type Hit struct {
	Kind     model.Kind
	Tag      int
	Pattern  string
	Params   []model.Param
	Scope    fox.HandlerScope
	HasRoute bool
}

// ReqLog collects what happened while serving one request; it travels in the request context.
type ReqLog struct {
	Hits  []Hit
	MW    []int
	Inner func(c fox.Context, h *Hit) // optional extra behaviour of the handler (yield, write, panic, ...)
	OnMW  func(c fox.Context, id int) // optional: called by every tracing middleware on entry
}

type reqLogKey struct{}

// LogOf returns the request's log.
func LogOf(c fox.Context) *ReqLog {
	if r := c.Request(); r != nil {
		l, _ := r.Context().Value(reqLogKey{}).(*ReqLog)
		return l
	}
	return nil
}

// World owns one real router and the bookkeeping needed to drive it.
type World struct {
	R       *fox.Router
	Cfg     Cfg
	nextTag int
	Extra   []fox.GlobalOption
	// URLAuthority, when set, makes Serve send absolute-form requests: URL.Host carries this authority, which routing
	// must ignore (the Host field decides)
	URLAuthority string
	// HTTP10, when set, makes Serve send requests that declare HTTP/1.0 (routing and the router's own answers do not
	// depend on the protocol version a request announces).
	HTTP10 bool
	// ConnHook, when set, prepares the connection of the next Serve call (one shot).
	ConnHook func(*Conn)
}

// CollectParams drains a context's parameter iterator.
func CollectParams(c fox.Context) []model.Param {
	var ps []model.Param
	for p := range c.Params() {
		ps = append(ps, model.Param{Key: p.Key, Value: p.Value})
	}
	return ps
}

func special(kind model.Kind) fox.HandlerFunc {
	return func(c fox.Context) {
		if l := LogOf(c); l != nil {
			h := Hit{Kind: kind, Pattern: c.Pattern(), Params: CollectParams(c), Scope: c.Scope(), HasRoute: c.Route() != nil, Tag: -1}
			l.Hits = append(l.Hits, h)
			if l.Inner != nil {
				l.Inner(c, &l.Hits[len(l.Hits)-1])
			}
		}
		switch kind {
		case model.KNoRoute:
			http.Error(c.Writer(), "404 page not found", http.StatusNotFound)
		case model.KNoMethod:
			http.Error(c.Writer(), "405", http.StatusMethodNotAllowed)
		case model.KOptions:
			c.Writer().WriteHeader(http.StatusOK)
		}
	}
}

// redirectSpy is a middleware scoped to the redirect handler: the built-in redirect handler cannot be replaced, so
// its context is observed from here.
func redirectSpy(next fox.HandlerFunc) fox.HandlerFunc {
	return func(c fox.Context) {
		if l := LogOf(c); l != nil {
			l.Hits = append(l.Hits, Hit{Kind: model.KRedirect, Pattern: c.Pattern(), Params: CollectParams(c), Scope: c.Scope(), HasRoute: c.Route() != nil, Tag: -1})
		}
		next(c)
	}
}

// DrawCfg draws a router configuration.
func DrawCfg(s sim.Source) Cfg {
	return Cfg{
		NoMethod:    sim.Bool(s, "405"),
		AutoOptions: sim.Bool(s, "autoopt"),
		GlobalTS:    s.Intn("gts", 3),
		CacheSize:   sim.Pick(s, "cache", []int{0, 1, 2, 3, 8, 64}),
	}
}

// cacheSize is read by the fox hook; it belongs to the run in progress.
var cacheSize int

func init() {
	fox.SimHooks.Point = sim.HookPoint
	fox.SimHooks.Acquire = sim.HookAcquire
	fox.SimHooks.CacheSize = func() int { return cacheSize }
}

// Build creates the router.
func Build(cfg Cfg, extra ...fox.GlobalOption) (*World, error) {
	cacheSize = cfg.CacheSize
	var opts []fox.GlobalOption
	if cfg.BuiltinHandlers {
		opts = append(opts, fox.WithNoMethod(cfg.NoMethod), fox.WithAutoOptions(cfg.AutoOptions))
	} else {
		opts = append(opts, fox.WithNoRouteHandler(special(model.KNoRoute)))
		if cfg.NoMethod {
			opts = append(opts, fox.WithNoMethodHandler(special(model.KNoMethod)))
		}
		if cfg.AutoOptions {
			opts = append(opts, fox.WithOptionsHandler(special(model.KOptions)))
		}
	}
	switch cfg.GlobalTS {
	case 1:
		opts = append(opts, fox.WithIgnoreTrailingSlash(true))
	case 2:
		opts = append(opts, fox.WithRedirectTrailingSlash(true))
	}
	if cfg.MaxParams > 0 {
		opts = append(opts, fox.WithMaxRouteParams(uint16(cfg.MaxParams)))
	}
	if cfg.MaxKeyBytes > 0 {
		opts = append(opts, fox.WithMaxRouteParamKeyBytes(uint16(cfg.MaxKeyBytes)))
	}
	if cfg.ExtrasFirst {
		opts = append(append([]fox.GlobalOption(nil), extra...), opts...)
	} else {
		opts = append(opts, extra...)
	}
	if !cfg.NoRedirectSpy {
		opts = append(opts, fox.WithMiddlewareFor(fox.RedirectHandler, redirectSpy))
	}
	r, err := fox.New(opts...)
	if err != nil {
		return nil, err
	}
	return &World{R: r, Cfg: cfg, nextTag: 1}, nil
}

// ModelCfg projects the configuration onto what the dispatcher model needs.
func (w *World) ModelCfg() model.Config {
	return model.Config{NoMethod: w.Cfg.NoMethod, AutoOptions: w.Cfg.AutoOptions}
}

// NewTag hands out a unique route tag. Tags are drawn on the task that registers; to keep them unique across tasks
// without shared state, callers pass a task-specific base.
func (w *World) NewTag() int {
	t := w.nextTag
	w.nextTag++
	return t
}

// Handler returns the handler of a route with the given tag. Not inlined: every handler the harness registers is a
// closure of ONE function (one code pointer, as with an application's handler constructor), differing in what it captured.
//
//go:noinline
func Handler(tag int) fox.HandlerFunc {
	return func(c fox.Context) {
		l := LogOf(c)
		if l == nil {
			return
		}
		l.Hits = append(l.Hits, Hit{Kind: model.KRoute, Tag: tag, Pattern: c.Pattern(), Params: CollectParams(c), Scope: c.Scope(), HasRoute: c.Route() != nil})
		if l.Inner != nil {
			l.Inner(c, &l.Hits[len(l.Hits)-1])
		}
	}
}

// RouteMW returns the route-specific middleware with the given id (not inlined, see Handler).
//
//go:noinline
func RouteMW(id int) fox.MiddlewareFunc {
	return func(next fox.HandlerFunc) fox.HandlerFunc {
		return func(c fox.Context) {
			if l := LogOf(c); l != nil {
				l.MW = append(l.MW, id)
				if l.OnMW != nil {
					l.OnMW(c, id)
				}
			}
			next(c)
		}
	}
}

// FoxOpts converts abstract route options into fox options (the tag annotation is always attached).
// groupAnnotation is ONE option value placed first in the option list of every route the harness registers (a
// group-wide option, the way applications share a slice of options between routes): whatever an option value keeps
// between two applications is shared by all routes, and what a route adds afterwards must stay its own.
type groupKey struct{}

var groupAnnotation = fox.WithAnnotation(groupKey{}, "harness")

func FoxOpts(tag int, o RouteOpt) []fox.RouteOption {
	opts := []fox.RouteOption{groupAnnotation, fox.WithAnnotation(TagKey{}, tag)}
	for _, c := range tsSeq(o.TS) {
		if c.redirect {
			opts = append(opts, fox.WithRedirectTrailingSlash(c.enable))
		} else {
			opts = append(opts, fox.WithIgnoreTrailingSlash(c.enable))
		}
	}
	for _, id := range o.MW {
		opts = append(opts, fox.WithMiddleware(RouteMW(id)))
	}
	return opts
}

// ModelRoute builds the model's record for a route registered with the given options under cfg.
func ModelRoute(cfg Cfg, method string, p *model.Pattern, tag int, o RouteOpt) *model.Route {
	r := &model.Route{Method: method, Pattern: p.Raw, Pat: p, Tag: tag, MW: o.MW}
	// the route starts from the router-wide mode; each option call then applies the documented rule: enabling one mode
	// disables the other, disabling one leaves the other alone
	r.IgnoreTS, r.RedirectTS = cfg.GlobalTS == 1, cfg.GlobalTS == 2
	for _, c := range tsSeq(o.TS) {
		if c.redirect {
			r.RedirectTS = c.enable
			if c.enable {
				r.IgnoreTS = false
			}
		} else {
			r.IgnoreTS = c.enable
			if c.enable {
				r.RedirectTS = false
			}
		}
	}
	return r
}

type tsCall struct{ redirect, enable bool }

// tsSeq decodes RouteOpt.TS into the sequence of per-route trailing-slash option calls.
func tsSeq(code int) []tsCall {
	switch code {
	case 1:
		return []tsCall{{false, true}}
	case 2:
		return []tsCall{{true, true}}
	case 3:
		return []tsCall{{false, false}, {true, false}}
	case 4:
		return []tsCall{{true, false}}
	case 5:
		return []tsCall{{false, false}}
	case 6:
		return []tsCall{{false, true}, {true, true}}
	case 7:
		return []tsCall{{true, true}, {false, true}}
	}
	return nil
}

// TSCodeFor returns an option code that makes a route ignore / redirect / do neither, whatever the router-wide mode.
func TSCodeFor(ignore, redirect bool) int {
	switch {
	case ignore:
		return 1
	case redirect:
		return 2
	}
	return 3
}

// TagOf reads the tag a route was created with (-1 for nil, -2 for a route without tag).
func TagOf(r *fox.Route) int {
	if r == nil {
		return -1
	}
	if t, ok := r.Annotation(TagKey{}).(int); ok {
		return t
	}
	return -2
}

// Reader is the read API shared by Router and Txn.
type Reader interface {
	Has(method, pattern string) bool
	Route(method, pattern string) *fox.Route
	Reverse(method, host, path string) (*fox.Route, bool)
	Lookup(w fox.ResponseWriter, r *http.Request) (*fox.Route, fox.ContextCloser, bool)
	Len() int
	Iter() fox.Iter
}

// Writer is the write API shared by Router and Txn.
type Writer interface {
	Handle(method, pattern string, handler fox.HandlerFunc, opts ...fox.RouteOption) (*fox.Route, error)
	HandleRoute(method string, route *fox.Route) error
	Update(method, pattern string, handler fox.HandlerFunc, opts ...fox.RouteOption) (*fox.Route, error)
	UpdateRoute(method string, route *fox.Route) error
	Delete(method, pattern string) (*fox.Route, error)
}

var _ Reader = (*fox.Router)(nil)
var _ Reader = (*fox.Txn)(nil)
var _ Writer = (*fox.Router)(nil)
var _ Writer = (*fox.Txn)(nil)

// NewRequest builds a request without going through net/http parsing. rawPath may be empty.
func NewRequest(method, host, path, rawPath, rawQuery string, log *ReqLog) *http.Request {
	r := &http.Request{
		Method:     method,
		URL:        &url.URL{Path: path, RawPath: rawPath, RawQuery: rawQuery},
		Host:       host,
		Header:     http.Header{},
		Proto:      "HTTP/1.1",
		ProtoMajor: 1,
		ProtoMinor: 1,
		RemoteAddr: "192.0.2.1:1234",
		RequestURI: path,
	}
	if rawPath != "" {
		r.RequestURI = rawPath
	}
	if rawQuery != "" {
		r.RequestURI += "?" + rawQuery
	}
	if log != nil {
		r = r.WithContext(context.WithValue(context.Background(), reqLogKey{}, log))
	}
	return r
}

// ErrClass maps a fox error onto the model's classes.
func ErrClass(err error) string {
	switch {
	case err == nil:
		return "ok"
	case errors.Is(err, fox.ErrRouteExist):
		return "exist"
	case errors.Is(err, fox.ErrRouteNotFound):
		return "notfound"
	case errors.Is(err, fox.ErrRouteConflict):
		return "conflict"
	case errors.Is(err, fox.ErrInvalidRoute):
		return "invalid"
	case errors.Is(err, fox.ErrReadOnlyTxn):
		return "readonly"
	case errors.Is(err, fox.ErrInvalidConfig):
		return "config"
	}
	return "other:" + err.Error()
}

// ModelErrClass maps a model error onto the same classes.
func ModelErrClass(err error) string {
	switch {
	case err == nil:
		return "ok"
	case errors.Is(err, model.ErrExist):
		return "exist"
	case errors.Is(err, model.ErrNotFound):
		return "notfound"
	case errors.Is(err, model.ErrConflict):
		return "conflict"
	case errors.Is(err, model.ErrInvalid):
		return "invalid"
	}
	return "other:" + err.Error()
}

// ---- observations -------------------------------------------------------------------------------------------

// MapSweep observes the registered set through rd: Len, Has/Route for every (method, pool pattern), and the
// iterators All, Methods, Prefix, Routes. The result is a canonical list of lines.
func MapSweep(rd Reader, methods []string, pool []*model.Pattern, prefixes []string) []string {
	return MapSweepOpt(rd, methods, pool, prefixes, true)
}

// MapSweepOpt is MapSweep with the iterator part optional: Txn.Iter() on a write transaction takes a snapshot, which
// resets the transaction's copy-on-write cache, so sweeping an open write transaction with iterators after every
// operation would keep that cache from ever surviving between two operations.
func MapSweepOpt(rd Reader, methods []string, pool []*model.Pattern, prefixes []string, iter bool) []string {
	var out []string
	out = append(out, fmt.Sprintf("len %d", rd.Len()))
	for _, m := range methods {
		for _, p := range pool {
			has := rd.Has(m, p.Raw)
			rt := rd.Route(m, p.Raw)
			if has || rt != nil {
				pat := ""
				if rt != nil {
					pat = rt.Pattern()
				}
				out = append(out, fmt.Sprintf("has %s %s %v route=%s#%d", m, p.Raw, has, pat, TagOf(rt)))
			}
		}
	}
	if iter {
		it := rd.Iter()
		out = append(out, IterSweep(it, methods, pool, prefixes)...)
	}
	return out
}

// leftEarly ranges seq once and leaves after the first element, then hands seq back: a sequence value may be ranged
// any number of times, and a range that was left early must leave nothing behind for the next one.
func leftEarly[K, V any](seq iter.Seq2[K, V]) iter.Seq2[K, V] {
	for range seq {
		break
	}
	return seq
}

// IterSweep observes a snapshot through its iterators. Every sequence is ranged twice: left after its first element,
// then in full (the full range is what counts).
func IterSweep(it fox.Iter, methods []string, pool []*model.Pattern, prefixes []string) []string {
	var out []string
	var ms []string
	mseq := it.Methods()
	for range mseq {
		break
	}
	for m := range mseq {
		ms = append(ms, m)
	}
	sort.Strings(ms)
	out = append(out, "methods "+strings.Join(ms, ","))
	var all []string
	for m, r := range leftEarly(it.All()) {
		all = append(all, fmt.Sprintf("all %s %s#%d", m, r.Pattern(), TagOf(r)))
	}
	sort.Strings(all)
	out = append(out, all...)
	for _, pf := range prefixes {
		var ps []string
		for m, r := range leftEarly(it.Prefix(seqOf(methods), pf)) {
			ps = append(ps, fmt.Sprintf("%s %s#%d", m, r.Pattern(), TagOf(r)))
		}
		sort.Strings(ps)
		out = append(out, fmt.Sprintf("prefix %q: %s", pf, strings.Join(ps, " | ")))
	}
	for _, p := range pool {
		var rs []string
		for m, r := range leftEarly(it.Routes(seqOf(methods), p.Raw)) {
			rs = append(rs, fmt.Sprintf("%s#%d", m, TagOf(r)))
		}
		if len(rs) > 0 {
			sort.Strings(rs)
			out = append(out, fmt.Sprintf("routes %s: %s", p.Raw, strings.Join(rs, " ")))
		}
	}
	return out
}

func seqOf(xs []string) func(func(string) bool) {
	return func(yield func(string) bool) {
		for _, x := range xs {
			if !yield(x) {
				return
			}
		}
	}
}

// ModelMapSweep renders the same observations from the model set.
func ModelMapSweep(s *model.Set, methods []string, pool []*model.Pattern, prefixes []string) []string {
	return ModelMapSweepOpt(s, methods, pool, prefixes, true)
}

// ModelMapSweepOpt mirrors MapSweepOpt.
func ModelMapSweepOpt(s *model.Set, methods []string, pool []*model.Pattern, prefixes []string, iter bool) []string {
	var out []string
	out = append(out, fmt.Sprintf("len %d", s.Len()))
	for _, m := range methods {
		for _, p := range pool {
			if r := s.Get(m, p.Raw); r != nil {
				out = append(out, fmt.Sprintf("has %s %s %v route=%s#%d", m, p.Raw, true, r.Pattern, r.Tag))
			}
		}
	}
	if iter {
		out = append(out, ModelIterSweep(s, methods, pool, prefixes)...)
	}
	return out
}

// ModelIterSweep renders the iterator observations from the model set.
func ModelIterSweep(s *model.Set, methods []string, pool []*model.Pattern, prefixes []string) []string {
	var out []string
	out = append(out, "methods "+strings.Join(s.Methods(), ","))
	var all []string
	for _, r := range s.Routes() {
		all = append(all, fmt.Sprintf("all %s %s#%d", r.Method, r.Pattern, r.Tag))
	}
	sort.Strings(all)
	out = append(out, all...)
	for _, pf := range prefixes {
		var ps []string
		for _, r := range s.Prefix(methods, pf) {
			ps = append(ps, fmt.Sprintf("%s %s#%d", r.Method, r.Pattern, r.Tag))
		}
		sort.Strings(ps)
		out = append(out, fmt.Sprintf("prefix %q: %s", pf, strings.Join(ps, " | ")))
	}
	for _, p := range pool {
		var rs []string
		for _, m := range methods {
			if r := s.Get(m, p.Raw); r != nil {
				rs = append(rs, fmt.Sprintf("%s#%d", m, r.Tag))
			}
		}
		if len(rs) > 0 {
			sort.Strings(rs)
			out = append(out, fmt.Sprintf("routes %s: %s", p.Raw, strings.Join(rs, " ")))
		}
	}
	return out
}

// DiffLines returns the first difference between two canonical line lists ("" when equal).
func DiffLines(got, want []string) string {
	for i := 0; i < len(got) || i < len(want); i++ {
		var g, w string
		if i < len(got) {
			g = got[i]
		}
		if i < len(want) {
			w = want[i]
		}
		if g != w {
			return fmt.Sprintf("line %d: got %q want %q", i, g, w)
		}
	}
	return ""
}

// FmtParams renders parameters canonically.
func FmtParams(ps []model.Param) string {
	var sb strings.Builder
	for i, p := range ps {
		if i > 0 {
			sb.WriteByte(',')
		}
		sb.WriteString(p.Key)
		sb.WriteByte('=')
		sb.WriteString(p.Value)
	}
	return sb.String()
}

// RouteObs is a routing observation through one entry point.
type RouteObs struct {
	Tag       int // -1 none
	Pattern   string
	Params    []model.Param
	HasParams bool // entry point reports params
	TSR       bool
}

func (o RouteObs) String() string {
	if o.Tag == -1 {
		return "none"
	}
	s := fmt.Sprintf("%s#%d tsr=%v", o.Pattern, o.Tag, o.TSR)
	if o.HasParams {
		s += " [" + FmtParams(o.Params) + "]"
	}
	return s
}

var _ fox.ResponseWriter = (*RW)(nil)

// ObsLookup routes through Reader.Lookup (eager: params are recorded).
func ObsLookup(rd Reader, p Probe) RouteObs {
	req := NewRequest(p.Method, p.Host, p.Path, "", "", nil)
	rt, cc, tsr := rd.Lookup(NewRW(NewConn()), req)
	if rt == nil {
		return RouteObs{Tag: -1}
	}
	o := RouteObs{Tag: TagOf(rt), Pattern: rt.Pattern(), TSR: tsr, HasParams: true, Params: CollectParams(cc)}
	cc.Close()
	return o
}

// ObsReverse routes through Reader.Reverse (lazy).
func ObsReverse(rd Reader, p Probe) RouteObs {
	rt, tsr := rd.Reverse(p.Method, p.Host, p.Path)
	if rt == nil {
		return RouteObs{Tag: -1}
	}
	return RouteObs{Tag: TagOf(rt), Pattern: rt.Pattern(), TSR: tsr}
}

// ServeObs is the observable outcome of one ServeHTTP call.
type ServeObs struct {
	Log      *ReqLog
	Conn     *Conn
	Kind     model.Kind
	Hit      Hit
	Status   int
	Allow    []string
	Location string
	Panic    any
}

// Serve sends a request through ServeHTTP.
func (w *World) Serve(p Probe, rawPath, rawQuery string, inner func(c fox.Context, h *Hit)) (obs ServeObs) {
	log := &ReqLog{Inner: inner}
	req := NewRequest(p.Method, p.Host, p.Path, rawPath, rawQuery, log)
	if w.URLAuthority != "" {
		// absolute-form request target: the URL carries an authority of its own, the Host field stays what it is
		req.URL.Scheme, req.URL.Host = "http", w.URLAuthority
		req.RequestURI = "http://" + w.URLAuthority + req.RequestURI
	}
	if w.HTTP10 {
		req.Proto, req.ProtoMajor, req.ProtoMinor = "HTTP/1.0", 1, 0
	}
	conn := NewConn()
	if h := w.ConnHook; h != nil {
		w.ConnHook = nil
		h(conn)
	}
	obs.Log, obs.Conn = log, conn
	func() {
		defer func() {
			if r := recover(); r != nil {
				obs.Panic = r
			}
		}()
		w.R.ServeHTTP(conn, req)
	}()
	obs.Status = conn.Status
	obs.Location = conn.H.Get("Location")
	if a := conn.H.Get("Allow"); a != "" {
		for _, m := range strings.Split(a, ",") {
			obs.Allow = append(obs.Allow, strings.TrimSpace(m))
		}
		sort.Strings(obs.Allow)
	}
	// the handler that ran last decides the kind (middleware spies come first)
	obs.Kind = -1
	for _, h := range log.Hits {
		obs.Kind = h.Kind
		obs.Hit = h
	}
	return obs
}
