package world

import (
	"context"
	"fmt"
	"log/slog"
	"strings"
)

// LogRecord is one captured slog record, flattened.
type LogRecord struct {
	Level slog.Level
	Msg   string
	Attrs map[string]string // group members as "group.key"
	Order []string
}

func (r LogRecord) String() string {
	var sb strings.Builder
	fmt.Fprintf(&sb, "%s %q", r.Level, r.Msg)
	for _, k := range r.Order {
		fmt.Fprintf(&sb, " %s=%s", k, r.Attrs[k])
	}
	return sb.String()
}

// Capture is a slog.Handler that stores every record (the log sink stub).
type Capture struct {
	Records []LogRecord
	// OnRecord, when set, is called at emission time (ordering checks).
	OnRecord func()
	// OnEnabled, when set, is called from Enabled: slog asks the handler before it copies the attributes into the record,
	// so a simulator yield here lets other requests run in between.
	OnEnabled func()
	// MinLevel is the handler's minimum level (slog drops records below it before they are built). Zero value: INFO;
	// use slog.LevelDebug to keep everything.
	MinLevel slog.Level
}

func (c *Capture) Enabled(_ context.Context, l slog.Level) bool {
	if c.OnEnabled != nil {
		c.OnEnabled()
	}
	return l >= c.MinLevel
}

func (c *Capture) Handle(_ context.Context, r slog.Record) error {
	rec := LogRecord{Level: r.Level, Msg: r.Message, Attrs: map[string]string{}}
	var add func(prefix string, a slog.Attr)
	add = func(prefix string, a slog.Attr) {
		if a.Value.Kind() == slog.KindGroup {
			for _, g := range a.Value.Group() {
				add(prefix+a.Key+".", g)
			}
			return
		}
		k := prefix + a.Key
		rec.Attrs[k] = a.Value.String()
		rec.Order = append(rec.Order, k)
	}
	r.Attrs(func(a slog.Attr) bool {
		add("", a)
		return true
	})
	c.Records = append(c.Records, rec)
	if c.OnRecord != nil {
		c.OnRecord()
	}
	return nil
}

func (c *Capture) WithAttrs([]slog.Attr) slog.Handler { return c }
func (c *Capture) WithGroup(string) slog.Handler      { return c }
