package world

import (
	"strconv"
	"strings"

	"verif/harness/model"
	"verif/harness/sim"
)

// PoolCfg shapes a pattern pool.
type PoolCfg struct {
	Size      int
	MaxSegs   int
	Hosts     bool // include hostname patterns
	WildHeavy bool // more wildcards
	TSlash    int  // out of 8: probability that a pattern ends with '/'
	Fanout    bool // add > 50 static siblings under one node
	Deep      bool // add a chain of nested prefixes deeper than 25 tree levels
	ManyParams bool // add two routes with more than 256 parameters before a fork (counters narrower than the 16-bit limit)
	Ladder    bool // add static, {param} and *{catch-all} alternatives at three consecutive levels (deep backtracking)
	HostHeavy bool // two fresh patterns in three carry a hostname, and mutations keep the host more often
	Siblings  bool // add eight one-letter static siblings below one node (registered in whatever order the history draws: a new last edge, a new first edge, one in the middle)
	Odd       bool // static segments also use bytes that sort before '*', between '*' and '{', and after '{'; wildcard names may carry '.', '-' or extend one another
}

// LadderPatterns, deepest first: at each of three levels a static, a parameter and a catch-all alternative. A request
// such as /a/b/ca must fall back level by level; how deep the tree "thinks" it is depends on the registration order.
var LadderPatterns = []string{"/a/b/c", "/a/b/{p2}", "/a/b/*{p2}", "/a/{p1}", "/a/*{p1}", "/{p0}", "/*{p0}"}

// ManyParamPatterns are two routes sharing 260 parameters and then forking into a static and a parameter alternative:
// a request that takes the static branch first and has to come back restores a parameter count above 255.
func ManyParamPatterns() []string {
	var sb strings.Builder
	for i := 0; i < 260; i++ {
		sb.WriteString("/{w")
		sb.WriteString(strconv.Itoa(i))
		sb.WriteString("}")
	}
	return []string{sb.String() + "/a/c", sb.String() + "/{wl}/b"}
}

// HighByteSiblings join the wide node of the fan-out shape: their first bytes lie 129 or more above the ASCII siblings
// (unsigned byte order), and each first byte is shared by two routes, so that the second write has to find the edge.
var HighByteSiblings = []string{"/f/\u00e9x", "/f/\u00e9y", "/f/\u65e5\u672c", "/f/\u65e5\u8a18", "/f/\u00ffz", "/f/\u00ffy/{p}"}

var statics = []string{"a", "b", "ab", "ba", "c"}

// oddStatics start with bytes on every side of the wildcard markers in byte order ('*' = 0x2A, '{' = 0x7B): child
// ordering and the param/catch-all child indexes of a node depend on where its static siblings sort.
var oddStatics = []string{"a", "b", "ab", "c", "$", "!a", "(", "+b", "-", "0", "Z", "_a", "|", "~b", "GET", "GETS", "POST", "\u00e9", "\u00e9a", "\u00ffb"} // verb names: method roots are keyed by them
var hostLabels = []string{"a", "b", "ab", "c", "a-b"}                                                                       // a-b: '-' sorts before '.' and '/' among the children of a node

func genSegment(s sim.Source, depth int, cfg PoolCfg, prevCatch bool) (seg string, isCatch bool) {
	wildHeavy := cfg.WildHeavy
	statics := statics
	if cfg.Odd {
		statics = oddStatics
	}
	w := 3
	if wildHeavy {
		w = 6
	}
	k := s.Intn("segkind", 12)
	name := "p" + string(rune('0'+depth))
	switch s.Intn("altname", 24) {
	case 23:
		name = "q" + string(rune('0'+depth))
	case 22, 21, 20, 19:
		// names that agree with each other (and with nothing else) up to and including a dot, or extend the usual name
		if cfg.Odd {
			name += sim.Pick(s, "namesuffix", []string{".a", ".b", "x", "-y"})
		}
	}
	switch {
	case k < w: // full-segment param
		return "{" + name + "}", false
	case k == w: // mid-segment param
		return sim.Pick(s, "st", statics[:2]) + "{" + name + "}", false
	case k == w+1 && !prevCatch: // full-segment catch-all
		return "*{" + name + "}", true
	case k == w+2 && wildHeavy: // mid-segment catch-all
		return sim.Pick(s, "st", statics[:2]) + "*{" + name + "}", true
	default:
		return sim.Pick(s, "st", statics), false
	}
}

// oddHostLabels adds labels with upper-case letters: registered hostnames are kept and matched byte for byte.
var oddHostLabels = append(append([]string(nil), hostLabels...), "Ab", "B", "10", "0") // numeric labels: legal next to a {param}

func genHost(s sim.Source, odd bool) string {
	hostLabels := hostLabels
	if odd {
		hostLabels = oddHostLabels
	}
	n := 1 + s.Intn("hostlabels", 3)
	labs := make([]string, n)
	for i := range labs {
		name := "h" + string(rune('0'+i))
		if odd && s.Intn("oddhostname", 2) == 0 {
			name = "h%" + string(rune('0'+i)) // wildcard names are free text: '%' is as good as any other byte
		}
		switch s.Intn("hl", 6) {
		case 0:
			labs[i] = "{" + name + "}"
		case 1:
			labs[i] = sim.Pick(s, "hls", hostLabels[:2]) + "{" + name + "}"
		default:
			labs[i] = sim.Pick(s, "hls", hostLabels)
		}
	}
	return strings.Join(labs, ".")
}

func genFresh(s sim.Source, cfg PoolCfg) string {
	n := 1 + s.Intn("nseg", cfg.MaxSegs)
	var sb strings.Builder
	prevCatch := false
	for d := 0; d < n; d++ {
		seg, c := genSegment(s, d, cfg, prevCatch)
		prevCatch = c && !strings.ContainsAny(seg[:1], "ab")
		sb.WriteByte('/')
		sb.WriteString(seg)
	}
	if s.Intn("tslash", 8) < cfg.TSlash {
		sb.WriteByte('/')
	}
	return sb.String()
}

// mutate derives a new pattern from an existing one so that pools share prefixes and wildcard positions.
func mutate(s sim.Source, p string, cfg PoolCfg) string {
	host, path := "", p
	if i := strings.IndexByte(p, '/'); i > 0 {
		host, path = p[:i], p[i:]
	}
	trailing := len(path) > 1 && strings.HasSuffix(path, "/")
	segs := strings.Split(strings.Trim(path, "/"), "/")
	if path == "/" {
		segs = nil
	}
	switch s.Intn("mut", 8) {
	case 0, 1: // append a segment
		if len(segs) < cfg.MaxSegs {
			prevCatch := len(segs) > 0 && strings.HasPrefix(segs[len(segs)-1], "*")
			seg, _ := genSegment(s, len(segs), cfg, prevCatch)
			segs = append(segs, seg)
		}
	case 2: // toggle trailing slash
		trailing = !trailing
	case 3: // replace last segment
		if len(segs) > 0 {
			prevCatch := len(segs) > 1 && strings.HasPrefix(segs[len(segs)-2], "*")
			seg, _ := genSegment(s, len(segs)-1, cfg, prevCatch)
			segs[len(segs)-1] = seg
		}
	case 4: // truncate
		if len(segs) > 1 {
			segs = segs[:len(segs)-1]
		}
	case 5: // replace a middle segment
		if len(segs) > 0 {
			i := s.Intn("mi", len(segs))
			prevCatch := i > 0 && strings.HasPrefix(segs[i-1], "*")
			seg, c := genSegment(s, i, cfg, prevCatch)
			if !(c && i+1 < len(segs) && strings.HasPrefix(segs[i+1], "*")) {
				segs[i] = seg
			}
		}
	case 6: // extend last static segment by a byte
		if len(segs) > 0 && !strings.ContainsAny(segs[len(segs)-1], "{*") {
			segs[len(segs)-1] += sim.Pick(s, "xb", []string{"a", "b"})
		}
	case 7: // change/add/remove host
		if cfg.Hosts {
			switch hm := s.Intn("hmut", 4); {
			case host == "" || hm == 0:
				host = genHost(s, cfg.Odd)
			case hm == 1:
				host = ""
			default:
				// a sibling host: one label replaced by another static text, the rest (parameters included) kept, so that
				// the two hosts share a prefix or a suffix in the tree
				labs := strings.Split(host, ".")
				i := s.Intn("hlabel", len(labs))
				if !strings.ContainsAny(labs[i], "{}") || len(labs) > 1 {
					if cfg.Odd {
						labs[i] = sim.Pick(s, "hls", oddHostLabels)
					} else {
						labs[i] = sim.Pick(s, "hls", hostLabels)
					}
				}
				host = strings.Join(labs, ".")
			}
		}
	}
	out := host + "/" + strings.Join(segs, "/")
	if trailing && len(segs) > 0 {
		out += "/"
	}
	return out
}

// GenPool draws a pool of distinct valid patterns.
func GenPool(s sim.Source, cfg PoolCfg) []*model.Pattern {
	var out []*model.Pattern
	seen := map[string]bool{}
	tries := 0
	if s.Intn("rootpattern", 5) == 0 {
		// the root itself (the only path no trailing-slash rule applies to), alone or under a host
		raws := []string{"/"}
		if cfg.Hosts {
			raws = append(raws, genHost(s, cfg.Odd)+"/")
		}
		for _, raw := range raws {
			if p, err := model.Parse(raw); err == nil && !seen[raw] {
				seen[raw] = true
				out = append(out, p)
			}
		}
	}
	for len(out) < cfg.Size && tries < cfg.Size*6 {
		tries++
		var raw string
		if len(out) > 0 && s.Intn("derive", 10) < 7 {
			raw = mutate(s, out[s.Intn("from", len(out))].Raw, cfg)
		} else {
			raw = genFresh(s, cfg)
			if wh := s.Intn("withhost", 3); cfg.Hosts && (wh == 2 || (cfg.HostHeavy && wh == 1)) {
				raw = genHost(s, cfg.Odd) + raw
			}
		}
		if seen[raw] {
			continue
		}
		p, err := model.Parse(raw)
		if err != nil {
			continue
		}
		seen[raw] = true
		out = append(out, p)
	}
	if cfg.Odd && len(out) > 0 {
		// two wildcards at one position whose names agree up to and including a dot (registering both is a conflict), and
		// the same under a host label
		oddRaws := []string{"/o/{n.a}/x", "/o/{n.b}/y", "/o/*{n.a}"}
		if cfg.Hosts {
			// hostnames of equal length with one and the same path: a parameter label under two names and a static
			// label as long as the parameter's text (they live side by side under different methods)
			oddRaws = append(oddRaws, "{x}.o.c/y", "{z}.o.c/y", "abc.o.c/y")
		}
		for _, raw := range oddRaws {
			if p, err := model.Parse(raw); err == nil && !seen[raw] {
				seen[raw] = true
				out = append(out, p)
			}
		}
	}
	if cfg.Fanout && len(out) > 0 {
		// more than 50 static siblings below "/f/" to cross the linear/binary search switch
		for i := 0; i < 56; i++ {
			c := byte('0' + i)
			if i >= 10 {
				c = byte('A' + i - 10)
			}
			if i >= 36 {
				c = byte('a' + i - 36 + 3) // d.. (a,b,c are used by the alphabet)
			}
			raw := "/f/" + string(c) + "x"
			if p, err := model.Parse(raw); err == nil && !seen[raw] {
				seen[raw] = true
				out = append(out, p)
			}
		}
		// siblings on the far sides of the wildcard markers, and wildcard children of the wide node with routes below them
		// (... and, HighByteSiblings, edges starting with bytes >= 0x80, two routes behind each of them)
		for _, raw := range append([]string{"/f/!x", "/f/$x", "/f/|x", "/f/~x", "/f/{p}", "/f/*{q}", "/f/{p}/t", "/f/*{q}/t"}, HighByteSiblings...) {
			if p, err := model.Parse(raw); err == nil && !seen[raw] {
				seen[raw] = true
				out = append(out, p)
			}
		}
	}
	if cfg.Siblings && len(out) > 0 {
		// a node that keeps gaining and losing edges at either end and in the middle of its sorted edge list, in every
		// version and lineage of the tree a history produces (aborted transactions, snapshots, later direct writes)
		for _, raw := range []string{"/s/k", "/s/l", "/s/m", "/s/n/{id}", "/s/o", "/s/p", "/s/q/{id}", "/s/r"} {
			if p, err := model.Parse(raw); err == nil && !seen[raw] {
				seen[raw] = true
				out = append(out, p)
			}
		}
	}
	if cfg.ManyParams && len(out) > 0 {
		for _, raw := range ManyParamPatterns() {
			if p, err := model.Parse(raw); err == nil && !seen[raw] {
				seen[raw] = true
				out = append(out, p)
			}
		}
	}
	if cfg.Ladder && len(out) > 0 {
		for _, raw := range LadderPatterns {
			if p, err := model.Parse(raw); err == nil && !seen[raw] {
				seen[raw] = true
				out = append(out, p)
			}
		}
	}
	if cfg.Deep && len(out) > 0 {
		// a branch deeper than 25 nodes: iterators and the lookup's backtracking stack size themselves from the depth
		chain := strings.Repeat("d", 27)
		raws := []string{"/~" + chain + "/{p}", "/~" + chain + "/{p}/x", "/~" + chain[:13] + "/", "/~" + chain[:20] + "/*{q}"}
		for i := 1; i <= 27; i++ {
			raws = append(raws, "/~"+chain[:i])
		}
		// ... and edges longer than 255 bytes that fork beyond that offset (positions inside a node's key)
		long := "/~" + chain + strings.Repeat("e", 300)
		raws = append(raws, long+"/{p}", long[:len(long)-20]+"f", long+"g/x", long+"/{p}/")
		for _, raw := range raws {
			if p, err := model.Parse(raw); err == nil && !seen[raw] {
				seen[raw] = true
				out = append(out, p)
			}
		}
	}
	return out
}

var values = []string{"a", "b", "ab", "ba", "c", "abc"}

// Instantiate builds a host and path matching p, with values from a small alphabet.
func Instantiate(s sim.Source, p *model.Pattern) (host, path string) {
	var sb strings.Builder
	for _, t := range p.Toks {
		switch t.Kind {
		case model.TStatic:
			sb.WriteByte(t.B)
		case model.TParam:
			if p.Host != "" && !strings.Contains(sb.String(), "/") && s.Intn("numerichost", 5) == 0 {
				// numeric label parts: a Host that reads like an IPv4 literal still equals the pattern label for label
				sb.WriteString(sim.Pick(s, "numval", []string{"7", "42", "0"}))
				break
			}
			if p.Host != "" && !strings.Contains(sb.String(), "/") && s.Intn("bracehost", 12) == 0 {
				// a host label part is any non-empty dot-free text: also text that looks like a wildcard
				sb.WriteString(sim.Pick(s, "braceval", []string{"{v}", "{h1}", "a{", "{", "}", "*{v}"}))
				break
			}
			if s.Intn("longval", 24) == 0 {
				// a parameter stands for text of any length: longer than the 63/255 bytes that bound registered host
				// labels and names, and than any buffer sized from the registered patterns
				v := sim.Pick(s, "val", values)
				sb.WriteString(strings.Repeat(v, (200+s.Intn("longlen", 120))/len(v)+1))
				break
			}
			sb.WriteString(sim.Pick(s, "val", values))
		case model.TCatch:
			n := 1 + s.Intn("csegs", 3)
			for i := 0; i < n; i++ {
				if i > 0 {
					sb.WriteByte('/')
				}
				sb.WriteString(sim.Pick(s, "val", values))
			}
		}
	}
	full := sb.String()
	i := strings.IndexByte(full, '/')
	return full[:i], full[i:]
}

// Probe is one request target.
type Probe struct {
	Method string
	Host   string
	Path   string
}

// GenProbe derives a request from the pool: an instantiated pattern, perturbed.
func GenProbe(s sim.Source, pool []*model.Pattern, methods []string) Probe {
	var host, path string
	if len(pool) == 0 || s.Intn("randprobe", 10) == 9 {
		n := 1 + s.Intn("nseg", 4)
		var sb strings.Builder
		for i := 0; i < n; i++ {
			sb.WriteByte('/')
			sb.WriteString(sim.Pick(s, "val", values))
		}
		path = sb.String()
	} else {
		host, path = Instantiate(s, pool[s.Intn("pp", len(pool))])
	}
	segs := strings.Split(strings.Trim(path, "/"), "/")
	trailing := len(path) > 1 && strings.HasSuffix(path, "/")
	if path == "/" {
		segs = nil
	}
	switch s.Intn("perturb", 12) {
	case 0, 1:
		trailing = !trailing
	case 2:
		if len(segs) > 0 {
			segs[len(segs)-1] = sim.Pick(s, "val", values)
		}
	case 3:
		segs = append(segs, sim.Pick(s, "val", values))
	case 4:
		if len(segs) > 1 {
			i := s.Intn("drop", len(segs))
			segs = append(segs[:i:i], segs[i+1:]...)
		}
	case 5:
		if len(segs) > 0 {
			i := s.Intn("chg", len(segs))
			segs[i] = sim.Pick(s, "val", values)
		}
	case 6:
		if len(segs) > 0 {
			segs[len(segs)-1] += sim.Pick(s, "xb", []string{"a", "b"})
		}
	case 7:
		// dot elements: ordinary non-empty segments for routing (a wildcard captures them), but not a clean path
		if len(segs) > 0 && s.Intn("dotseg", 2) == 1 {
			i := len(segs) - 1
			if s.Intn("dotlast", 2) == 0 {
				i = s.Intn("dotat", len(segs))
			}
			segs[i] = sim.Pick(s, "dot", []string{".", ".."})
		}
	}
	path = "/" + strings.Join(segs, "/")
	if trailing && len(segs) > 0 {
		path += "/"
	}
	if host == "" && len(pool) > 0 && s.Intn("borrowhost", 4) == 3 {
		h, _ := Instantiate(s, pool[s.Intn("hp", len(pool))])
		host = h
	}
	switch s.Intn("hostperturb", 10) {
	case 0:
		host = ""
	case 1:
		if host != "" {
			host += ":8080"
		}
	case 2:
		if host != "" {
			host += "."
		}
	}
	return Probe{Method: sim.Pick(s, "method", methods), Host: host, Path: path}
}
