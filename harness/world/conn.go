// Package world builds a real fox router from a generated configuration, executes abstract operations on it through
// every public entry point and provides the simulated connection, sources, handlers and middleware.
package world

import (
	"fmt"
	"bufio"
	"errors"
	"io"
	"net"
	"net/http"
	"time"
)

// Caps is the set of optional capabilities a simulated connection offers.
type Caps struct {
	ReaderFrom, Flusher, FlushError, Hijacker, Pusher, ReadDeadline, WriteDeadline, FullDuplex bool
	Unwrap bool // only with no capability at all: the writer has Unwrap() leading to a writer that offers everything
}

// ConnEvent is one entry of the connection's own log: what really reached the "wire".
type ConnEvent struct {
	Kind string // header, info, write, readfrom, flush, hijack, push, rdeadline, wdeadline, fullduplex
	Code int
	N    int
}

var ErrInjected = errors.New("sim: injected I/O fault")

// Conn is the simulated underlying http.ResponseWriter. It accepts at most FailAfter body bytes (no limit when < 0);
// the write that crosses the limit is short and returns ErrInjected, later writes accept nothing.
type Conn struct {
	CapFail int // the next CapFail calls of optional capabilities (hijack, push, deadlines, full duplex) fail with ErrCap
	H               http.Header
	Events          []ConnEvent
	Status          int // first final status received, explicit or implied by a body write (0 = none)
	Explicit        int // first final status received through WriteHeader (0 = none)
	Finals          int // number of final WriteHeader calls received
	Body            []byte
	FailAfter       int
	FlushErr        error
	HeaderAfterBody bool // a final header arrived after body bytes
	WroteBody       bool
	// OnWrite, when set, is called when a body write arrives, before its bytes are consumed (a simulator yield here lets
	// other requests run while the caller's buffer is in flight).
	OnWrite func()
	// OnHeader, when set, is called when a final header arrives (a slow client: whoever answers - a route handler or one
	// of the router's own handlers - is inside its write while other tasks run).
	OnHeader func()
}

func NewConn() *Conn { return &Conn{H: http.Header{}, FailAfter: -1} }

func (c *Conn) Header() http.Header { return c.H }

func (c *Conn) WriteHeader(code int) {
	if code < 100 || code > 999 {
		// net/http refuses such codes the same way (checkWriteHeaderCode): nothing is sent
		panic(fmt.Sprintf("invalid WriteHeader code %v", code))
	}
	if code >= 100 && code <= 199 && code != 101 {
		c.Events = append(c.Events, ConnEvent{Kind: "info", Code: code})
		return
	}
	if c.OnHeader != nil {
		c.OnHeader()
	}
	c.Events = append(c.Events, ConnEvent{Kind: "header", Code: code})
	c.Finals++
	if c.WroteBody {
		c.HeaderAfterBody = true
	}
	if c.Status == 0 {
		c.Status = code
	}
	if c.Explicit == 0 {
		c.Explicit = code
	}
}

func (c *Conn) accept(p []byte, kind string) (int, error) {
	if c.OnWrite != nil {
		c.OnWrite()
	}
	if c.Status == 0 {
		// net/http semantics: implicit 200 on first write
		c.Status = 200
		c.Events = append(c.Events, ConnEvent{Kind: "implicit-header", Code: 200})
	}
	n := len(p)
	var err error
	if c.FailAfter >= 0 {
		room := c.FailAfter - len(c.Body)
		if room < 0 {
			room = 0
		}
		if n > room {
			n = room
			err = ErrInjected
		}
	}
	c.Body = append(c.Body, p[:n]...)
	if n > 0 {
		c.WroteBody = true
	}
	c.Events = append(c.Events, ConnEvent{Kind: kind, N: n})
	return n, err
}

func (c *Conn) Write(p []byte) (int, error) { return c.accept(p, "write") }

// readFrom is the fast path offered when Caps.ReaderFrom is set.
func (c *Conn) readFrom(src io.Reader) (int64, error) {
	var total int64
	buf := make([]byte, 7)
	for {
		n, rerr := src.Read(buf)
		if n > 0 {
			w, werr := c.accept(buf[:n], "readfrom")
			total += int64(w)
			if werr != nil {
				return total, werr
			}
		}
		if rerr == io.EOF {
			return total, nil
		}
		if rerr != nil {
			return total, rerr
		}
	}
}

// The capability methods live on distinct wrapper types so that interface assertions see only what is offered.
// To keep the combinatorics manageable the wrapper is assembled from a table of the combinations used by the generator.

type rfT struct{ *Conn }

func (r rfT) ReadFrom(src io.Reader) (int64, error) { return r.Conn.readFrom(src) }

type flT struct{ *Conn }

func (f flT) Flush() { f.Conn.Events = append(f.Conn.Events, ConnEvent{Kind: "flush"}) }

type feT struct{ *Conn }

func (f feT) FlushError() error {
	f.Conn.Events = append(f.Conn.Events, ConnEvent{Kind: "flusherror"})
	return f.Conn.FlushErr
}

// febT offers both flavours, like net/http's own writers: FlushError is the one that can report a failure.
type febT struct{ *Conn }

func (f febT) Flush() { f.Conn.Events = append(f.Conn.Events, ConnEvent{Kind: "flush"}) }
func (f febT) FlushError() error {
	f.Conn.Events = append(f.Conn.Events, ConnEvent{Kind: "flusherror"})
	return f.Conn.FlushErr
}

// ErrCap is what an optional capability of the connection answers while Conn.CapFail is positive.
var ErrCap = errors.New("simulated connection: capability failed")

func (c *Conn) capResult() error {
	if c.CapFail > 0 {
		c.CapFail--
		return ErrCap
	}
	return nil
}

type hjT struct{ *Conn }

func (h hjT) Hijack() (net.Conn, *bufio.ReadWriter, error) {
	h.Conn.Events = append(h.Conn.Events, ConnEvent{Kind: "hijack"})
	return nil, nil, h.Conn.capResult()
}

type puT struct{ *Conn }

func (p puT) Push(string, *http.PushOptions) error {
	p.Conn.Events = append(p.Conn.Events, ConnEvent{Kind: "push"})
	return p.Conn.capResult()
}

type rdT struct{ *Conn }

func (r rdT) SetReadDeadline(time.Time) error {
	r.Conn.Events = append(r.Conn.Events, ConnEvent{Kind: "rdeadline"})
	return r.Conn.capResult()
}

type wdT struct{ *Conn }

func (w wdT) SetWriteDeadline(time.Time) error {
	w.Conn.Events = append(w.Conn.Events, ConnEvent{Kind: "wdeadline"})
	return w.Conn.capResult()
}

type fdT struct{ *Conn }

func (f fdT) EnableFullDuplex() error {
	f.Conn.Events = append(f.Conn.Events, ConnEvent{Kind: "fullduplex"})
	return f.Conn.capResult()
}

type unwT struct{ *Conn }

func (u unwT) Unwrap() http.ResponseWriter { return decoyT{u.Conn} }

// decoyT is what a capability-less writer unwraps to: every optional capability, each call recorded as "decoy:<kind>".
type decoyT struct{ *Conn }

func (d decoyT) note(kind string) { d.Conn.Events = append(d.Conn.Events, ConnEvent{Kind: "decoy:" + kind}) }
func (d decoyT) Flush()            { d.note("flush") }
func (d decoyT) FlushError() error { d.note("flusherror"); return nil }
func (d decoyT) Hijack() (net.Conn, *bufio.ReadWriter, error) {
	d.note("hijack")
	return nil, nil, nil
}
func (d decoyT) Push(string, *http.PushOptions) error { d.note("push"); return nil }
func (d decoyT) SetReadDeadline(time.Time) error      { d.note("rdeadline"); return nil }
func (d decoyT) SetWriteDeadline(time.Time) error     { d.note("wdeadline"); return nil }
func (d decoyT) EnableFullDuplex() error              { d.note("fullduplex"); return nil }

// Wrap returns a writer offering exactly caps. Supported combinations: any subset of {ReaderFrom, Flusher|FlushError}
// alone, or "all" / "none" for the remaining capabilities (Hijacker, Pusher, deadlines, full duplex as a group).
func (c *Conn) Wrap(caps Caps) http.ResponseWriter {
	group := caps.Hijacker || caps.Pusher || caps.ReadDeadline || caps.WriteDeadline || caps.FullDuplex
	type W = http.ResponseWriter
	rf, fl, fe := caps.ReaderFrom, caps.Flusher, caps.FlushError
	switch {
	case !group && !rf && !fl && !fe && caps.Unwrap:
		// offers nothing itself, but wraps (Unwrap) a writer that offers everything: the capabilities of "the underlying
		// writer" are those of the writer handed over, not of what it may wrap
		return struct {
			W
			unwT
		}{c, unwT{c}}
	case !group && !rf && !fl && !fe:
		return struct{ W }{c}
	case !group && rf && !fl && !fe:
		return struct {
			W
			rfT
		}{c, rfT{c}}
	case !group && !rf && fl && !fe:
		return struct {
			W
			flT
		}{c, flT{c}}
	case !group && !rf && fe && fl:
		return struct {
			W
			febT
		}{c, febT{c}}
	case !group && !rf && fe && !fl:
		return struct {
			W
			feT
		}{c, feT{c}}
	case !group && rf && fl && !fe:
		return struct {
			W
			rfT
			flT
		}{c, rfT{c}, flT{c}}
	case !group && rf && fe && fl:
		return struct {
			W
			rfT
			febT
		}{c, rfT{c}, febT{c}}
	case !group && rf && fe && !fl:
		return struct {
			W
			rfT
			feT
		}{c, rfT{c}, feT{c}}
	case group && !rf && !fl && !fe:
		return struct {
			W
			hjT
			puT
			rdT
			wdT
			fdT
		}{c, hjT{c}, puT{c}, rdT{c}, wdT{c}, fdT{c}}
	case group && rf && !fl && !fe:
		return struct {
			W
			rfT
			hjT
			puT
			rdT
			wdT
			fdT
		}{c, rfT{c}, hjT{c}, puT{c}, rdT{c}, wdT{c}, fdT{c}}
	case group && !rf && fl && !fe:
		return struct {
			W
			flT
			hjT
			puT
			rdT
			wdT
			fdT
		}{c, flT{c}, hjT{c}, puT{c}, rdT{c}, wdT{c}, fdT{c}}
	case group && !rf && fe && fl:
		return struct {
			W
			febT
			hjT
			puT
			rdT
			wdT
			fdT
		}{c, febT{c}, hjT{c}, puT{c}, rdT{c}, wdT{c}, fdT{c}}
	case group && !rf && fe && !fl:
		return struct {
			W
			feT
			hjT
			puT
			rdT
			wdT
			fdT
		}{c, feT{c}, hjT{c}, puT{c}, rdT{c}, wdT{c}, fdT{c}}
	case group && rf && fl && !fe:
		return struct {
			W
			rfT
			flT
			hjT
			puT
			rdT
			wdT
			fdT
		}{c, rfT{c}, flT{c}, hjT{c}, puT{c}, rdT{c}, wdT{c}, fdT{c}}
	default:
		return struct {
			W
			rfT
			feT
			hjT
			puT
			rdT
			wdT
			fdT
		}{c, rfT{c}, feT{c}, hjT{c}, puT{c}, rdT{c}, wdT{c}, fdT{c}}
	}
}

// NormCaps maps a drawn capability set onto a supported combination (see Wrap).
func NormCaps(c Caps) Caps {
	g := c.Hijacker || c.Pusher || c.ReadDeadline || c.WriteDeadline || c.FullDuplex
	c.Hijacker, c.Pusher, c.ReadDeadline, c.WriteDeadline, c.FullDuplex = g, g, g, g, g
	return c
}

// FaultyReader yields Data, failing with ErrInjected after FailAfter bytes (no failure when < 0). When TogetherWithData
// is set the failing Read returns the last bytes and the error in the same call.
type FaultyReader struct {
	Data             []byte
	FailAfter        int
	Chunk            int
	TogetherWithData bool
	pos              int
}

func (f *FaultyReader) Read(p []byte) (int, error) {
	limit := len(f.Data)
	if f.FailAfter >= 0 && f.FailAfter < limit {
		limit = f.FailAfter
	}
	if f.pos >= limit {
		if f.FailAfter >= 0 && f.FailAfter <= len(f.Data) && f.pos >= f.FailAfter {
			return 0, ErrInjected
		}
		return 0, io.EOF
	}
	n := limit - f.pos
	if f.Chunk > 0 && n > f.Chunk {
		n = f.Chunk
	}
	if n > len(p) {
		n = len(p)
	}
	copy(p, f.Data[f.pos:f.pos+n])
	f.pos += n
	if f.TogetherWithData && f.FailAfter >= 0 && f.pos >= f.FailAfter && f.FailAfter <= len(f.Data) {
		return n, ErrInjected
	}
	return n, nil
}

// RW is a minimal fox.ResponseWriter over a simulated connection, used where the API wants a caller-supplied writer
// (Router.Lookup, Context.CloneWith).
type RW struct {
	C      *Conn
	status int
	size   int
	wrote  bool
}

func NewRW(c *Conn) *RW { return &RW{C: c, status: 200} }

func (w *RW) Header() http.Header { return w.C.H }
func (w *RW) WriteHeader(code int) {
	if !w.wrote {
		w.wrote = true
		w.status = code
		w.C.WriteHeader(code)
	}
}
func (w *RW) Write(p []byte) (int, error) {
	if !w.wrote {
		w.WriteHeader(w.status)
	}
	n, err := w.C.Write(p)
	w.size += n
	return n, err
}
func (w *RW) WriteString(s string) (int, error)            { return w.Write([]byte(s)) }
func (w *RW) ReadFrom(r io.Reader) (int64, error)          { return io.Copy(struct{ io.Writer }{w}, r) }
func (w *RW) Status() int                                  { return w.status }
func (w *RW) Written() bool                                { return w.wrote }
func (w *RW) Size() int                                    { return w.size }
func (w *RW) FlushError() error                            { return nil }
func (w *RW) Hijack() (net.Conn, *bufio.ReadWriter, error) { return nil, nil, http.ErrNotSupported }
func (w *RW) Push(string, *http.PushOptions) error         { return http.ErrNotSupported }
func (w *RW) SetReadDeadline(time.Time) error              { return http.ErrNotSupported }
func (w *RW) SetWriteDeadline(time.Time) error             { return http.ErrNotSupported }
func (w *RW) EnableFullDuplex() error                      { return http.ErrNotSupported }
