package world

import (
	"os"
	"regexp"
	"syscall"
)

var stderrFile *os.File

// CaptureStderr runs f with file descriptor 2 pointing at a scratch file of this process and returns what was written
// to it. fox's built-in log handler writes to the process' standard error and cannot be given another writer, so this
// is the one place where the harness lets real I/O happen: a private, already unlinked file, read back synchronously.
// Only called outside the scheduler (one goroutine).
func CaptureStderr(f func()) (out string, err error) {
	if stderrFile == nil {
		tf, e := os.CreateTemp("", "verif-stderr-*")
		if e != nil {
			return "", e
		}
		_ = os.Remove(tf.Name())
		stderrFile = tf
	}
	if err = stderrFile.Truncate(0); err != nil {
		return "", err
	}
	if _, err = stderrFile.Seek(0, 0); err != nil {
		return "", err
	}
	saved, err := syscall.Dup(2)
	if err != nil {
		return "", err
	}
	if err = syscall.Dup3(int(stderrFile.Fd()), 2, 0); err != nil {
		syscall.Close(saved)
		return "", err
	}
	func() {
		defer func() {
			_ = syscall.Dup3(saved, 2, 0)
			syscall.Close(saved)
		}()
		f()
	}()
	st, err := stderrFile.Stat()
	if err != nil {
		return "", err
	}
	buf := make([]byte, st.Size())
	if _, err = stderrFile.ReadAt(buf, 0); err != nil && st.Size() > 0 {
		return "", err
	}
	return string(buf), nil
}

var ansiSeq = regexp.MustCompile("\x1b\\[[0-9;]*m")

// StripANSI removes colour sequences.
func StripANSI(s string) string { return ansiSeq.ReplaceAllString(s, "") }
