package world

import (
	"os"
	"regexp"
	"syscall"
)

var stderrFile *os.File

// CaptureStderr runs f with file descriptors 1 and 2 pointing at a scratch file of this process and returns what was
// written to them. fox's built-in log handler writes to the process' standard output (below ERROR) and standard error
// and cannot be given another writer, so this
// is the one place where the harness lets real I/O happen: a private, already unlinked file, read back synchronously.
// Only called outside the scheduler (one goroutine).
func CaptureStderr(f func()) (out string, err error) {
	if stderrFile == nil {
		tf, e := os.CreateTemp("", "verif-stderr-*")
		if e != nil {
			return "", e
		}
		_ = os.Remove(tf.Name())
		stderrFile = tf
	}
	if err = stderrFile.Truncate(0); err != nil {
		return "", err
	}
	if _, err = stderrFile.Seek(0, 0); err != nil {
		return "", err
	}
	var saved [3]int
	for _, fd := range []int{1, 2} {
		if saved[fd], err = syscall.Dup(fd); err != nil {
			return "", err
		}
	}
	restore := func() {
		for _, fd := range []int{1, 2} {
			_ = syscall.Dup3(saved[fd], fd, 0)
			syscall.Close(saved[fd])
		}
	}
	for _, fd := range []int{1, 2} {
		if err = syscall.Dup3(int(stderrFile.Fd()), fd, 0); err != nil {
			restore()
			return "", err
		}
	}
	func() {
		defer restore()
		f()
	}()
	st, err := stderrFile.Stat()
	if err != nil {
		return "", err
	}
	buf := make([]byte, st.Size())
	if _, err = stderrFile.ReadAt(buf, 0); err != nil && st.Size() > 0 {
		return "", err
	}
	return string(buf), nil
}

var ansiSeq = regexp.MustCompile("\x1b\\[[0-9;]*m")

// StripANSI removes colour sequences.
func StripANSI(s string) string { return ansiSeq.ReplaceAllString(s, "") }
