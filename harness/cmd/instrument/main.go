// Command instrument rewrites a scratch copy of package fox: around every call of a synchronisation primitive
// (Lock, RLock, TryLock, TryRLock, Unlock, RUnlock, atomic Load, Store, Swap, Add, And, Or, CompareAndSwap) it inserts the verif yield hooks, so that
// the simulator gets a scheduling point at every such operation wherever the code under test places it.
//
//	instrument <dir>
//
// Only non-test files of the package in <dir> are rewritten (verif_*.go excluded). Files without such calls are left
// untouched. The tool uses the standard library only.
package main

import (
	"bytes"
	"fmt"
	"go/ast"
	"go/format"
	"go/parser"
	"go/token"
	"os"
	"path/filepath"
	"strings"
)

type site struct {
	kind string // lock rlock unlock load store
	recv ast.Expr
}

func classify(call *ast.CallExpr) (site, bool) {
	sel, ok := call.Fun.(*ast.SelectorExpr)
	if !ok {
		return site{}, false
	}
	n := len(call.Args)
	switch sel.Sel.Name {
	case "Lock":
		if n == 0 {
			return site{"lock", sel.X}, true
		}
	case "RLock":
		if n == 0 {
			return site{"rlock", sel.X}, true
		}
	case "TryLock", "TryRLock":
		if n == 0 {
			return site{"trylock", sel.X}, true
		}
	case "Unlock", "RUnlock":
		if n == 0 {
			return site{"unlock", sel.X}, true
		}
	case "Load":
		if n == 0 {
			return site{"load", sel.X}, true
		}
	case "Store", "Swap", "Add", "And", "Or":
		// (Add/And/Or with one argument: atomic read-modify-write - or a WaitGroup, where a yield is just as welcome)
		if n == 1 {
			return site{"store", sel.X}, true
		}
	case "CompareAndSwap":
		if n == 2 {
			return site{"store", sel.X}, true
		}
	}
	return site{}, false
}

// directSites finds the sync calls evaluated by the statement itself (not inside nested blocks or function literals).
func directSites(st ast.Stmt) []site {
	var out []site
	var visit func(n ast.Node) bool
	visit = func(n ast.Node) bool {
		switch x := n.(type) {
		case *ast.BlockStmt, *ast.FuncLit, *ast.CaseClause, *ast.CommClause:
			return false
		case *ast.CallExpr:
			if s, ok := classify(x); ok {
				out = append(out, s)
			}
		}
		return true
	}
	switch x := st.(type) {
	case *ast.IfStmt:
		if x.Init != nil {
			ast.Inspect(x.Init, visit)
		}
		ast.Inspect(x.Cond, visit)
	case *ast.ForStmt:
		if x.Init != nil {
			ast.Inspect(x.Init, visit)
		}
	case *ast.RangeStmt:
		ast.Inspect(x.X, visit)
	case *ast.SwitchStmt:
		if x.Init != nil {
			ast.Inspect(x.Init, visit)
		}
		if x.Tag != nil {
			ast.Inspect(x.Tag, visit)
		}
	case *ast.TypeSwitchStmt, *ast.SelectStmt, *ast.LabeledStmt, *ast.BlockStmt, *ast.DeferStmt, *ast.GoStmt:
		// nested statements are handled by recursion; defer is rewritten separately
	default:
		ast.Inspect(st, visit)
	}
	return out
}

func call(name string, args ...ast.Expr) ast.Stmt {
	return &ast.ExprStmt{X: &ast.CallExpr{Fun: ast.NewIdent(name), Args: args}}
}

func pt(name string) ast.Expr { return ast.NewIdent(name) }

func sel(x ast.Expr, name string) ast.Expr { return &ast.SelectorExpr{X: x, Sel: ast.NewIdent(name)} }

func prePost(s site) (pre, post []ast.Stmt) {
	switch s.kind {
	case "lock":
		// simAcquireAny(&X): the rewrite is syntactic and X may be a mutex value, a pointer to one or an interface
		// (sync.Locker of a sync.Cond); the generated helper finds TryLock/Unlock at run time
		pre = append(pre, call("simAcquireAny", &ast.UnaryExpr{Op: token.AND, X: s.recv}))
		post = append(post, call("simPoint", pt("ptLocked")))
	case "rlock":
		pre = append(pre, call("simRAcquireAny", &ast.UnaryExpr{Op: token.AND, X: s.recv}))
		post = append(post, call("simPoint", pt("ptLocked")))
	case "trylock":
		pre = append(pre, call("simPoint", pt("ptTryLock")))
	case "unlock":
		pre = append(pre, call("simPoint", pt("ptBeforeUnlock")))
		post = append(post, call("simPoint", pt("ptUnlocked")))
	case "load":
		pre = append(pre, call("simPoint", pt("ptBeforeLoad")))
		post = append(post, call("simPoint", pt("ptAfterLoad")))
	case "store":
		pre = append(pre, call("simPoint", pt("ptBeforeStore")))
		post = append(post, call("simPoint", pt("ptStored")))
	}
	return
}

var changed bool

func rewriteList(list []ast.Stmt) []ast.Stmt {
	var out []ast.Stmt
	for _, st := range list {
		if b, ok := st.(*ast.BlockStmt); ok {
			b.List = rewriteList(b.List)
			out = append(out, st)
			continue
		}
		rewriteNested(st)
		if d, ok := st.(*ast.DeferStmt); ok {
			if s, ok := classify(d.Call); ok {
				pre, post := prePost(s)
				body := append(append(pre, &ast.ExprStmt{X: d.Call}), post...)
				d.Call = &ast.CallExpr{Fun: &ast.FuncLit{Type: &ast.FuncType{Params: &ast.FieldList{}}, Body: &ast.BlockStmt{List: body}}}
				changed = true
			}
			out = append(out, st)
			continue
		}
		sites := directSites(st)
		if len(sites) == 0 {
			out = append(out, st)
			continue
		}
		changed = true
		var pres, posts []ast.Stmt
		for _, s := range sites {
			pre, post := prePost(s)
			pres = append(pres, pre...)
			posts = append(posts, post...)
		}
		out = append(out, pres...)
		out = append(out, st)
		switch st.(type) {
		case *ast.ReturnStmt, *ast.BranchStmt:
			// nothing can follow
		case *ast.IfStmt, *ast.ForStmt, *ast.RangeStmt, *ast.SwitchStmt:
			// the call belongs to the header: only the yield before it is inserted
		default:
			out = append(out, posts...)
		}
	}
	return out
}

func rewriteNested(n ast.Node) {
	ast.Inspect(n, func(x ast.Node) bool {
		switch b := x.(type) {
		case *ast.BlockStmt:
			b.List = rewriteList(b.List)
			return false
		case *ast.CaseClause:
			b.Body = rewriteList(b.Body)
			return false
		case *ast.CommClause:
			b.Body = rewriteList(b.Body)
			return false
		}
		return true
	})
}

func main() {
	if len(os.Args) != 2 {
		fmt.Fprintln(os.Stderr, "usage: instrument <dir>")
		os.Exit(2)
	}
	dir := os.Args[1]
	files, err := filepath.Glob(filepath.Join(dir, "*.go"))
	if err != nil {
		fmt.Fprintln(os.Stderr, err)
		os.Exit(2)
	}
	total := 0
	for _, f := range files {
		base := filepath.Base(f)
		if strings.HasSuffix(base, "_test.go") || strings.HasPrefix(base, "verif_") {
			continue
		}
		fset := token.NewFileSet()
		src, err := os.ReadFile(f)
		if err != nil {
			fmt.Fprintln(os.Stderr, err)
			os.Exit(2)
		}
		// comments are dropped from rewritten files: synthesized statements carry no positions and go/printer could
		// otherwise misplace comments. (No //go: directives exist in these files; checked below.)
		file, err := parser.ParseFile(fset, f, src, parser.SkipObjectResolution)
		if err != nil {
			fmt.Fprintln(os.Stderr, err)
			os.Exit(2)
		}
		changed = false
		for _, d := range file.Decls {
			if fn, ok := d.(*ast.FuncDecl); ok && fn.Body != nil {
				fn.Body.List = rewriteList(fn.Body.List)
			}
		}
		// function literals at package level (var x = func() {...}) are rare; handled through their FuncDecl-less bodies
		for _, d := range file.Decls {
			if g, ok := d.(*ast.GenDecl); ok {
				ast.Inspect(g, func(x ast.Node) bool {
					if fl, ok := x.(*ast.FuncLit); ok {
						fl.Body.List = rewriteList(fl.Body.List)
						return false
					}
					return true
				})
			}
		}
		if !changed {
			continue
		}
		if bytes.Contains(src, []byte("\n//go:")) || bytes.HasPrefix(src, []byte("//go:")) {
			fmt.Fprintf(os.Stderr, "instrument: %s carries //go: directives, refusing to rewrite\n", base)
			os.Exit(2)
		}
		var buf bytes.Buffer
		if err := format.Node(&buf, fset, file); err != nil {
			fmt.Fprintln(os.Stderr, err)
			os.Exit(2)
		}
		if err := os.WriteFile(f, buf.Bytes(), 0o644); err != nil {
			fmt.Fprintln(os.Stderr, err)
			os.Exit(2)
		}
		total++
	}
	if total > 0 {
		if err := os.WriteFile(filepath.Join(dir, "verif_simany.go"), []byte(helperSrc), 0o644); err != nil {
			fmt.Fprintln(os.Stderr, err)
			os.Exit(2)
		}
	}
	fmt.Printf("instrumented %d file(s)\n", total)
}

// helperSrc is written next to the rewritten files: lock acquisition through whatever X turns out to be.
const helperSrc = `//go:build verif

package fox

type simTryLocker interface {
	TryLock() bool
	Unlock()
}

type simTryRLocker interface {
	TryRLock() bool
	RUnlock()
}

// simAcquireAny gates X.Lock() given &X: X is a mutex value (its pointer has TryLock), or a pointer or an interface
// holding one (the pointed-to value has it). Anything else only gets a yield point.
func simAcquireAny[T any](p *T) {
	if l, ok := any(p).(simTryLocker); ok {
		simAcquire(l.TryLock, l.Unlock)
		return
	}
	if l, ok := any(*p).(simTryLocker); ok {
		simAcquire(l.TryLock, l.Unlock)
		return
	}
	simPoint(ptTryLock)
}

func simRAcquireAny[T any](p *T) {
	if l, ok := any(p).(simTryRLocker); ok {
		simAcquire(l.TryRLock, l.RUnlock)
		return
	}
	if l, ok := any(*p).(simTryRLocker); ok {
		simAcquire(l.TryRLock, l.RUnlock)
		return
	}
	simPoint(ptTryLock)
}
`
