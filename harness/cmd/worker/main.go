// Command worker executes simulated runs of one property in one OS process (GOMAXPROCS=1) and reports JSON.
package main

import (
	"encoding/json"
	"flag"
	"fmt"
	"io"
	"log"
	"os"
	"runtime"
	"runtime/debug"
	"sort"
	"strings"
	"sync/atomic"
	"syscall"
	"time"

	"verif/harness/props"
	"verif/harness/sim"
)

// Report is what a worker hands back to the driver.
type Report struct {
	Prop       string                     `json:"prop"`
	HB         bool                       `json:"hb"`
	Seed       uint64                     `json:"seed"`
	From       int                        `json:"from"`
	Runs       int                        `json:"runs"`
	Steps      int                        `json:"steps"`
	Checks     int                        `json:"checks"`
	Nontrivial int                        `json:"nontrivial"`
	CaseKeys   []uint64                   `json:"case_keys"` // keys of non-trivial cases (for distinct counting across workers)
	HashXor    uint64                     `json:"hash_xor"`  // xor of (run index mixed with event-log hash): determinism witness of the batch
	Stats      map[string]int             `json:"stats"`
	Known      map[string]*props.KnownHit `json:"known,omitempty"`
	Violations []Violation                `json:"violations,omitempty"`
	Trouble    string                     `json:"trouble,omitempty"`
	Samples    []map[string]any           `json:"samples,omitempty"`
	WallS      float64                    `json:"wall_s"`
	Hashes     map[string]uint64          `json:"hashes,omitempty"` // per-run hashes when -hashes is set
}

type Violation struct {
	Run    int    `json:"run"`
	Class  string `json:"class"`
	Detail string `json:"detail"`
	Replay string `json:"replay"`
	Shrunk int    `json:"shrunk_to"`
	From   int    `json:"shrunk_from"`
}

// ReplayFile is the on-disk replay format: the complete choice sequence of one run plus a readable description.
type ReplayFile struct {
	Property string `json:"property"`
	Class    string `json:"class"`
	Detail   string `json:"detail"`
	Seed     uint64 `json:"seed"`
	Run      int    `json:"run"`
	HB       bool   `json:"hb"`
	sim.Choices
	PRNG  bool           `json:"prng,omitempty"` // choices are regenerated from (seed, run) instead of being listed (crashed runs)
	// CarryFrom is the first run the reporting process executed; Carry asks the replay to execute the runs CarryFrom..Run-1
	// (from the PRNG) in the same process before Run itself: a violation that needs what the system under test keeps in
	// process-global memory across Router instances does not occur in a process that executes Run alone.
	CarryFrom int  `json:"carry_from"`
	Carry     bool `json:"carry,omitempty"`
	Hash  uint64         `json:"event_log_hash"`
	Case  map[string]any `json:"case"`
	Stack string         `json:"stack,omitempty"`
}

func main() {
	var (
		propID   = flag.String("prop", "", "property id")
		seed     = flag.Uint64("seed", 1, "batch seed")
		from     = flag.Int("from", 0, "first run index")
		n        = flag.Int("n", 1, "number of runs")
		out      = flag.String("out", "", "report file")
		replay   = flag.String("replay", "", "replay file to execute instead of generating runs")
		rdir     = flag.String("replaydir", "", "directory for replay files of violations")
		hashes   = flag.Bool("hashes", false, "report the event-log hash of every run")
		maxViol  = flag.Int("maxviol", 1, "stop after this many violations")
		samples  = flag.Int("samples", 0, "number of sample cases to describe in full")
		progress = flag.String("progress", "", "file receiving the index of the run in progress (HB mode attribution)")
		info     = flag.Bool("info", false, "print the property's metadata and exit")
	)
	flag.Parse()
	runtime.GOMAXPROCS(1)
	debug.SetGCPercent(-1)
	log.SetOutput(io.Discard) // fox's recorder reports superfluous WriteHeader calls through the std logger
	p := props.Get(*propID)
	if p == nil {
		fmt.Fprintln(os.Stderr, "unknown property", *propID)
		os.Exit(2)
	}
	if *info {
		json.NewEncoder(os.Stdout).Encode(map[string]any{"id": p.ID, "level": p.Level, "rule": p.Rule, "quick": p.Quick, "thorough": p.Thorough,
			"quick_hb": p.QuickHB, "thorough_hb": p.ThoroughHB, "real": p.Real, "stub": p.Stub, "assumptions": p.Assumptions,
			"tolerances": p.Tolerances, "domain": p.Domain})
		return
	}
	// fox's default log handler (DefaultOptions) writes to the process's stdout: silence file descriptor 1. Everything the
	// worker reports goes to its report file or to stderr.
	if devnull, err := os.OpenFile(os.DevNull, os.O_WRONLY, 0); err == nil {
		_ = syscall.Dup2(int(devnull.Fd()), 1)
	}
	p0 := p
	runFn := p.Run
	if sim.RaceEnabled && p.HBRun != nil {
		runFn = p.HBRun
	}
	opts := props.Opts{HB: sim.RaceEnabled}
	{
		// a panic that escapes a run on the caller's goroutine (sequential engines) is a violation of "never panics" when
		// it comes out of fox, harness trouble otherwise
		inner := runFn
		runFn = func(src sim.Source, o props.Opts) (res *props.Result) {
			defer func() {
				if p := recover(); p != nil {
					stack := string(debug.Stack())
					res = &props.Result{Stats: map[string]int{}, Case: map[string]any{"panic": fmt.Sprint(p)}, Stack: stack}
					if strings.Contains(stack, "github.com/tigerwill90/fox.") {
						res.Class = p0.ID + "/panic"
						res.Detail = fmt.Sprintf("panic inside fox: %v", p)
					} else {
						res.Trouble = fmt.Sprintf("panic in harness code: %v\n%s", p, stack)
					}
				}
			}()
			return inner(src, o)
		}
	}

	if *replay != "" {
		os.Exit(doReplay(p, runFn, opts, *replay))
	}

	rep := &Report{Prop: p.ID, HB: sim.RaceEnabled, Seed: *seed, From: *from, Stats: map[string]int{}}
	flush := func() {
		if *out != "" {
			writeJSON(*out, rep)
		}
	}
	// watchdog: a run or a shrink attempt that makes no progress for 2 minutes (a task killed after a violation may have left
	// a lock of the system under test held for ever) ends the process with whatever was found so far
	go func() {
		// staleness is counted in watchdog ticks, not read off the wall clock: a suspended VM or a stopped process makes
		// the clock jump without the run having had a chance to progress
		var last int64
		stale := 0
		for {
			time.Sleep(2 * time.Second)
			if b := beat.Load(); b != last {
				last, stale = b, 0
				continue
			}
			stale++
			limit := 60 // ~2 min: the slowest legitimate runs (thousands of bytes of path through nested infix catch-alls, scanned once per method for Allow) take seconds
			if pending.Load() {
				limit = 4 // ~8 s
			}
			if stale > limit {
				if pending.Load() {
					// the unshrunk violation was flushed to the report file before shrinking started
					os.Exit(0)
				}
				rep.Trouble = "watchdog: no progress for 2 minutes"
				flush()
				os.Exit(2)
			}
		}
	}()
	if *hashes {
		rep.Hashes = map[string]uint64{}
	}
	start := time.Now()
	seen := map[uint64]bool{}
	var prog *os.File
	if *progress != "" {
		prog, _ = os.Create(*progress)
	}
	for i := *from; i < *from+*n; i++ {
		if i%64 == 0 {
			runtime.GC()
			runtime.GC()
		}
		if prog != nil {
			fmt.Fprintf(prog, "%d\n", i)
		}
		beat.Store(time.Now().UnixNano())
		rec := &sim.Recorder{In: sim.NewPRNG(sim.Mix(*seed, uint64(i), hashID(p.ID)))}
		o := opts
		o.Trace = len(rep.Samples) < *samples
		res := runFn(rec, o)
		rep.Runs++
		rep.Steps += res.Steps
		rep.Checks += res.Checks
		rep.HashXor ^= sim.Mix(uint64(i), res.Hash)
		if rep.Hashes != nil {
			rep.Hashes[fmt.Sprint(i)] = res.Hash
		}
		for k, v := range res.Stats {
			rep.Stats[k] += v
		}
		for k, v := range res.Known {
			if rep.Known == nil {
				rep.Known = map[string]*props.KnownHit{}
			}
			if e := rep.Known[k]; e != nil {
				e.Count += v.Count
			} else {
				rep.Known[k] = &props.KnownHit{Count: v.Count, Witness: v.Witness}
			}
		}
		if res.Nontrivial {
			rep.Nontrivial++
			if !seen[res.CaseKey] {
				seen[res.CaseKey] = true
				rep.CaseKeys = append(rep.CaseKeys, res.CaseKey)
			}
			if o.Trace && res.Class == "" {
				res.Case["run"] = i
				rep.Samples = append(rep.Samples, res.Case)
			}
		}
		if res.Trouble != "" {
			rep.Trouble = fmt.Sprintf("run %d: %s", i, res.Trouble)
			break
		}
		if sim.RaceEnabled {
			if report := newRaceReport(); report != "" {
				// HB mode: the race detector printed a report during this run
				inFox, detail := judgeRace(report)
				if !inFox {
					rep.Trouble = fmt.Sprintf("run %d: race report without fox frames on both sides (harness bug):\n%s", i, report)
					break
				}
				file := fmt.Sprintf("%s/%s-seed%d-run%d-race.json", *rdir, p.ID, *seed, i)
				res.Case["race_report"] = report
				if *rdir != "" {
					writeJSON(file, ReplayFile{Property: p.ID, Class: p.ID + "/data-race", Detail: detail, Seed: *seed, Run: i, CarryFrom: *from, HB: true,
						Choices: rec.Values(), Hash: res.Hash, Case: res.Case})
				}
				rep.Violations = append(rep.Violations, Violation{Run: i, Class: p.ID + "/data-race", Detail: detail, Replay: file, From: rec.Log.Len(), Shrunk: rec.Log.Len()})
				break
			}
		}
		if res.Class != "" {
			v := Violation{Run: i, Class: res.Class, Detail: res.Detail, From: rec.Log.Len()}
			vals := rec.Values()
			class := res.Class
			file := fmt.Sprintf("%s/%s-seed%d-run%d.json", *rdir, p.ID, *seed, i)
			if *rdir != "" {
				// durable before shrinking starts
				writeJSON(file, ReplayFile{Property: p.ID, Class: res.Class, Detail: res.Detail, Seed: *seed, Run: i, CarryFrom: *from, HB: sim.RaceEnabled,
					Choices: vals, Hash: res.Hash, Case: res.Case, Stack: res.Stack})
				v.Replay = file
				v.Shrunk = vals.Len()
				rep.Violations = append(rep.Violations, v)
				flush()
				if res.Leaked {
					// a goroutine of this run is still blocked inside the system under test: no further simulation
					// (and no shrinking) may run in this process
					rep.WallS = time.Since(start).Seconds()
					flush()
					os.Exit(0)
				}
				pending.Store(true)
				rep.Violations = rep.Violations[:len(rep.Violations)-1]
			}
			best, _ := sim.Shrink(vals, class, 1500, func(s sim.Source) string {
				beat.Store(time.Now().UnixNano())
				r := runFn(s, opts)
				if r.Trouble != "" {
					return ""
				}
				return r.Class
			})
			v.Shrunk = best.Len()
			// final run of the minimal sequence, strictly, with trace, for the file
			rp := &sim.Replay{Vals: best, Strict: true}
			o2 := opts
			o2.Trace = true
			fr := runFn(rp, o2)
			if fr.Class != class || rp.Err != nil {
				// fall back to the original sequence
				best = vals
				rp = &sim.Replay{Vals: best, Strict: true}
				fr = runFn(rp, o2)
			}
			if fr.Class != class {
				// not even the original sequence shows it again in this process: the violation depends on memory the system
				// under test keeps per process (a package-level pool), which the shrinking attempts have changed meanwhile.
				// The record written before shrinking (the run as it happened) stays; the driver replays it after the
				// preceding runs of this worker (carry mode).
				v.Shrunk = vals.Len()
				v.Replay = file
				pending.Store(false)
				rep.Violations = append(rep.Violations, v)
				if len(rep.Violations) >= *maxViol {
					break
				}
				continue
			}
			if *rdir != "" {
				writeJSON(file, ReplayFile{Property: p.ID, Class: fr.Class, Detail: fr.Detail, Seed: *seed, Run: i, CarryFrom: *from, HB: sim.RaceEnabled,
					Choices: best, Hash: fr.Hash, Case: fr.Case, Stack: fr.Stack})
				v.Replay = file
			}
			v.Detail = fr.Detail
			pending.Store(false)
			rep.Violations = append(rep.Violations, v)
			if len(rep.Violations) >= *maxViol {
				break
			}
		}
	}
	sort.Slice(rep.CaseKeys, func(i, j int) bool { return rep.CaseKeys[i] < rep.CaseKeys[j] })
	rep.WallS = time.Since(start).Seconds()
	if *out != "" {
		writeJSON(*out, rep)
	} else {
		json.NewEncoder(os.Stderr).Encode(rep)
	}
	if rep.Trouble != "" {
		os.Exit(2)
	}
}

var beat atomic.Int64
var pending atomic.Bool

var raceLogSeen int64

// newRaceReport returns what the race detector wrote to its log since the last call (GORACE log_path must point to
// VERIF_RACELOG; the runtime appends ".<pid>").
func newRaceReport() string {
	prefix := os.Getenv("VERIF_RACELOG")
	if prefix == "" {
		return ""
	}
	b, err := os.ReadFile(fmt.Sprintf("%s.%d", prefix, os.Getpid()))
	if err != nil || int64(len(b)) <= raceLogSeen {
		return ""
	}
	out := string(b[raceLogSeen:])
	raceLogSeen = int64(len(b))
	return out
}

// judgeRace reports whether both access stacks of the first report contain a fox frame, and a one-line summary.
func judgeRace(report string) (bool, string) {
	blocks := strings.Split(report, "\n\n")
	var acc []string
	for _, b := range blocks {
		t := strings.TrimSpace(b)
		t = strings.TrimPrefix(t, "==================\n")
		t = strings.TrimPrefix(t, "WARNING: DATA RACE\n")
		if strings.HasPrefix(t, "Read at") || strings.HasPrefix(t, "Write at") || strings.HasPrefix(t, "Previous read at") || strings.HasPrefix(t, "Previous write at") ||
			strings.HasPrefix(t, "Atomic") || strings.HasPrefix(t, "Previous atomic") {
			acc = append(acc, t)
		}
		if len(acc) == 2 {
			break
		}
	}
	if len(acc) < 2 {
		return false, "unparsed race report"
	}
	top := func(b string) string {
		ls := strings.Split(b, "\n")
		for i := 1; i < len(ls); i++ {
			if strings.Contains(ls[i], "github.com/tigerwill90/fox.") {
				return strings.TrimSpace(ls[i])
			}
			// a fox function inlined into a harness closure (iterator bodies) carries the closure's name; its source
			// position still lies in the instrumented copy of the library
			if i+1 < len(ls) && strings.Contains(ls[i+1], "/.build/src-") && strings.Contains(ls[i+1], "/fox/") {
				return strings.TrimSpace(ls[i]) + " [" + strings.TrimSpace(ls[i+1]) + "]"
			}
		}
		return ""
	}
	a, b := top(acc[0]), top(acc[1])
	// the detector sometimes cannot restore the stack of the older access; the report is then attributed by the side
	// that is known (and confirmed by replay in a fresh process like every violation)
	lost := func(blk string) bool { return strings.Contains(blk, "failed to restore the stack") }
	if a == "" && lost(acc[0]) && b != "" {
		a = "(stack not restored)"
	}
	if b == "" && lost(acc[1]) && a != "" {
		b = "(stack not restored)"
	}
	if a == "" || b == "" {
		return false, "race outside fox"
	}
	return true, fmt.Sprintf("data race: %s in %s  vs  %s in %s", strings.SplitN(acc[0], " ", 2)[0], a, strings.ToLower(strings.SplitN(acc[1], "\n", 2)[0]), b)
}

func hashID(id string) uint64 {
	h := uint64(1469598103934665603)
	for i := 0; i < len(id); i++ {
		h = (h ^ uint64(id[i])) * 1099511628211
	}
	return h
}

func writeJSON(path string, v any) {
	b, err := json.MarshalIndent(v, "", " ")
	if err != nil {
		fmt.Fprintln(os.Stderr, "marshal:", err)
		os.Exit(2)
	}
	if err := os.WriteFile(path, b, 0o644); err != nil {
		fmt.Fprintln(os.Stderr, "write:", err)
		os.Exit(2)
	}
}

// doReplay re-executes a replay file strictly. Exit 1 = the same violation class was reproduced with the same
// event-log hash; 0 = no violation; 2 = replay trouble (mismatch).
func doReplay(p *props.Prop, runFn func(sim.Source, props.Opts) *props.Result, opts props.Opts, file string) int {
	b, err := os.ReadFile(file)
	if err != nil {
		fmt.Fprintln(os.Stderr, err)
		return 2
	}
	var rf ReplayFile
	if err := json.Unmarshal(b, &rf); err != nil {
		fmt.Fprintln(os.Stderr, err)
		return 2
	}
	if rf.Property != p.ID {
		fmt.Fprintf(os.Stderr, "replay file is for %s, not %s\n", rf.Property, p.ID)
		return 2
	}
	rp := &sim.Replay{Vals: rf.Choices, Strict: true}
	opts.Trace = true
	var res *props.Result
	if rf.Carry {
		quiet := opts
		quiet.Trace = false
		for i := rf.CarryFrom; i < rf.Run; i++ {
			runFn(sim.NewPRNG(sim.Mix(rf.Seed, uint64(i), hashID(p.ID))), quiet)
		}
	}
	if rf.PRNG || rf.Carry {
		res = runFn(sim.NewPRNG(sim.Mix(rf.Seed, uint64(rf.Run), hashID(p.ID))), opts)
	} else {
		res = runFn(rp, opts)
	}
	if rp.Err != nil {
		fmt.Fprintf(os.Stderr, "REPLAY-MISMATCH %v\n", rp.Err)
		return 2
	}
	if res.Trouble != "" {
		fmt.Fprintf(os.Stderr, "REPLAY-TROUBLE %s\n", res.Trouble)
		return 2
	}
	if sim.RaceEnabled && res.Class == "" {
		if report := newRaceReport(); report != "" {
			if inFox, detail := judgeRace(report); inFox {
				fmt.Fprintf(os.Stderr, "REPLAY-VIOLATION property=%s class=%s/data-race\n%s\n%s\n", p.ID, p.ID, detail, report)
				if rf.Class == p.ID+"/data-race" {
					return 1
				}
				return 3
			}
			fmt.Fprintf(os.Stderr, "REPLAY-TROUBLE race report without fox frames on both sides\n%s\n", report)
			return 2
		}
	}
	if res.Class == "" {
		fmt.Fprintf(os.Stderr, "REPLAY-CLEAN property=%s (the recorded violation %s did not occur)\n", p.ID, rf.Class)
		return 0
	}
	same := res.Class == rf.Class && (res.Hash == rf.Hash || rf.PRNG || rf.Carry)
	fmt.Fprintf(os.Stderr, "REPLAY-VIOLATION property=%s class=%s same_class=%v same_event_log=%v\n%s\n", p.ID, res.Class, res.Class == rf.Class, res.Hash == rf.Hash, res.Detail)
	if res.Stack != "" {
		fmt.Fprintln(os.Stderr, res.Stack)
	}
	if !same {
		return 3
	}
	return 1
}
