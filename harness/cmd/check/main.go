// Command check is the driver: it rebuilds the worker from /repo's current working tree (hooks on), fans runs out
// over all cores, confirms every violation by replaying it in a fresh process, matches known findings, writes the
// evidence file and sets the exit code (0 held, 1 violation, 2 trouble).
package main

import (
	"bytes"
	"encoding/json"
	"fmt"
	"os"
	"os/exec"
	"path/filepath"
	"regexp"
	"runtime"
	"sort"
	"strconv"
	"strings"
	"sync"
	"time"
)

type knownHit struct {
	Count   int    `json:"Count"`
	Witness string `json:"Witness"`
}

type violation struct {
	Run    int    `json:"run"`
	Class  string `json:"class"`
	Detail string `json:"detail"`
	Replay string `json:"replay"`
	Shrunk int    `json:"shrunk_to"`
	From   int    `json:"shrunk_from"`
	hb     bool
}

type report struct {
	Prop       string               `json:"prop"`
	HB         bool                 `json:"hb"`
	Runs       int                  `json:"runs"`
	Steps      int                  `json:"steps"`
	Checks     int                  `json:"checks"`
	Nontrivial int                  `json:"nontrivial"`
	CaseKeys   []uint64             `json:"case_keys"`
	HashXor    uint64               `json:"hash_xor"`
	Stats      map[string]int       `json:"stats"`
	Known      map[string]*knownHit `json:"known"`
	Violations []violation          `json:"violations"`
	Trouble    string               `json:"trouble"`
	Samples    []map[string]any     `json:"samples"`
	WallS      float64              `json:"wall_s"`
}

type propInfo struct {
	ID          string   `json:"id"`
	Level       string   `json:"level"`
	Rule        string   `json:"rule"`
	Quick       int      `json:"quick"`
	Thorough    int      `json:"thorough"`
	QuickHB     int      `json:"quick_hb"`
	ThoroughHB  int      `json:"thorough_hb"`
	Real        []string `json:"real"`
	Stub        []string `json:"stub"`
	Assumptions []string `json:"assumptions"`
	Tolerances  []string `json:"tolerances"`
	Domain      []string `json:"domain"`
}

type finding struct {
	Status      string `json:"status"` // known | fixed
	Property    string `json:"property"`
	Class       string `json:"class"`
	Witness     string `json:"witness"`
	Description string `json:"description"`
	Commit      string `json:"commit,omitempty"`
}

var (
	verifDir = envOr("VERIF_DIR", "/verif")
	repoDir  = envOr("VERIF_REPO", "/repo")
)

func envOr(k, d string) string {
	if v := os.Getenv(k); v != "" {
		return v
	}
	return d
}

func die(code int, format string, args ...any) {
	fmt.Fprintf(os.Stderr, "check: "+format+"\n", args...)
	os.Exit(code)
}

func goEnv() []string {
	env := os.Environ()
	env = append(env, "GOTOOLCHAIN=local", "GOFLAGS=-mod=mod", "GOPROXY=off", "CGO_ENABLED=1")
	return env
}

func goBin() string {
	if p, err := exec.LookPath("go1.26.8"); err == nil {
		return p
	}
	return "/opt/veriftools/go1.26.8/bin/go"
}

// prepareSources copies /repo's current working tree into a scratch directory under .build, inserts the yield hooks
// around every synchronisation primitive (cmd/instrument) and writes a go.mod that points the harness at the copy.
func prepareSources(id, tmp string) (modfile string, err error) {
	src := filepath.Join(verifDir, ".build", "src-"+id)
	foxDir := filepath.Join(src, "fox")
	if err := os.MkdirAll(foxDir, 0o755); err != nil {
		return "", err
	}
	run := func(dir string, env []string, name string, args ...string) error {
		cmd := exec.Command(name, args...)
		cmd.Dir = dir
		cmd.Env = env
		var buf bytes.Buffer
		cmd.Stdout, cmd.Stderr = &buf, &buf
		if err := cmd.Run(); err != nil {
			return fmt.Errorf("%s %s: %v\n%s", name, strings.Join(args, " "), err, buf.String())
		}
		return nil
	}
	if err := run("/", os.Environ(), "rsync", "-a", "--delete", "--exclude", ".git", repoDir+"/", foxDir+"/"); err != nil {
		return "", err
	}
	instr := filepath.Join(tmp, "instrument")
	if err := run(filepath.Join(verifDir, "harness"), goEnv(), goBin(), "build", "-o", instr, "./cmd/instrument"); err != nil {
		return "", err
	}
	if err := run("/", os.Environ(), instr, foxDir); err != nil {
		return "", err
	}
	gm, err := os.ReadFile(filepath.Join(verifDir, "harness", "go.mod"))
	if err != nil {
		return "", err
	}
	modfile = filepath.Join(src, "go.mod")
	if err := os.WriteFile(modfile, bytes.ReplaceAll(gm, []byte("=> /repo"), []byte("=> "+foxDir)), 0o644); err != nil {
		return "", err
	}
	gs, _ := os.ReadFile(filepath.Join(verifDir, "harness", "go.sum"))
	os.WriteFile(filepath.Join(src, "go.sum"), gs, 0o644)
	return modfile, nil
}

var modFile string

func build(out string, race bool) error {
	args := []string{"build", "-modfile=" + modFile, "-tags", "verif"}
	if race {
		args = append(args, "-race")
	}
	args = append(args, "-o", out, "./cmd/worker")
	cmd := exec.Command(goBin(), args...)
	cmd.Dir = filepath.Join(verifDir, "harness")
	cmd.Env = goEnv()
	var buf bytes.Buffer
	cmd.Stdout, cmd.Stderr = &buf, &buf
	if err := cmd.Run(); err != nil {
		return fmt.Errorf("go build failed: %v\n%s", err, buf.String())
	}
	return nil
}

func main() {
	if len(os.Args) < 2 {
		die(2, "usage: check <property> [--tier quick|thorough] [--replay file] [--seed n] [--workers n] [--runs n] [--hbruns n]")
	}
	id := os.Args[1]
	tier := envOr("VERIF_TIER", "quick")
	seedStr := envOr("VERIF_SEED", "1")
	replay := ""
	workers := runtime.NumCPU()
	runsOverride, hbOverride := -1, -1
	for i := 2; i < len(os.Args); i++ {
		next := func() string {
			i++
			if i >= len(os.Args) {
				die(2, "missing value for %s", os.Args[i-1])
			}
			return os.Args[i]
		}
		switch os.Args[i] {
		case "--tier":
			tier = next()
		case "--replay":
			replay = next()
		case "--seed":
			seedStr = next()
		case "--workers":
			workers, _ = strconv.Atoi(next())
		case "--runs":
			runsOverride, _ = strconv.Atoi(next())
		case "--hbruns":
			hbOverride, _ = strconv.Atoi(next())
		default:
			die(2, "unknown argument %s", os.Args[i])
		}
	}
	if tier != "quick" && tier != "thorough" {
		die(2, "bad tier %q", tier)
	}
	seed, err := strconv.ParseInt(seedStr, 10, 64)
	if err != nil {
		// any string is accepted as a seed: hash it
		h := int64(1469598103934665603)
		for _, c := range []byte(seedStr) {
			h = (h ^ int64(c)) * 1099511628211
		}
		seed = h & 0x7fffffffffffffff
	}
	start := time.Now()
	buildDir := filepath.Join(verifDir, ".build")
	os.MkdirAll(buildDir, 0o755)
	os.MkdirAll(filepath.Join(verifDir, "replays"), 0o755)
	os.MkdirAll(filepath.Join(verifDir, "evidence"), 0o755)
	tmp, err := os.MkdirTemp(buildDir, "run-"+id+"-")
	if err != nil {
		die(2, "%v", err)
	}
	defer os.RemoveAll(tmp)
	if modFile, err = prepareSources(id, tmp); err != nil {
		os.RemoveAll(tmp)
		die(2, "preparing sources: %v", err)
	}
	worker := filepath.Join(tmp, "worker")
	if err := build(worker, false); err != nil {
		os.RemoveAll(tmp)
		die(2, "%v", err)
	}

	// property metadata comes from the worker itself
	var info propInfo
	{
		out, err := exec.Command(worker, "-prop", id, "-info").Output()
		if err != nil {
			os.RemoveAll(tmp)
			die(2, "unknown property %s (%v)", id, err)
		}
		if err := json.Unmarshal(out, &info); err != nil {
			os.RemoveAll(tmp)
			die(2, "bad info: %v", err)
		}
	}

	if replay != "" {
		code := doReplay(worker, tmp, id, replay)
		os.RemoveAll(tmp)
		os.Exit(code)
	}

	findings := loadFindings()
	runs := info.Quick
	hbRuns := info.QuickHB
	if tier == "thorough" {
		runs, hbRuns = info.Thorough, info.ThoroughHB
		workerLimit = 5 * time.Hour
	}
	if runsOverride >= 0 {
		runs = runsOverride
	}
	if hbOverride >= 0 {
		hbRuns = hbOverride
	}

	var reports []*report
	var trouble []string
	rs, tr := fanOut(worker, tmp, id, uint64(seed), runs, workers, false)
	reports = append(reports, rs...)
	trouble = append(trouble, tr...)

	var hbWorker string
	if hbRuns > 0 {
		hbWorker = filepath.Join(tmp, "worker-race")
		if err := build(hbWorker, true); err != nil {
			os.RemoveAll(tmp)
			die(2, "%v", err)
		}
		rs, tr := fanOut(hbWorker, tmp, id, uint64(seed), hbRuns, workers, true)
		reports = append(reports, rs...)
		trouble = append(trouble, tr...)
	}

	// merge
	agg := &report{Prop: id, Stats: map[string]int{}, Known: map[string]*knownHit{}}
	hbAgg := &report{Stats: map[string]int{}}
	distinct := map[uint64]bool{}
	var viols []violation
	for _, r := range reports {
		tgt := agg
		if r.HB {
			tgt = hbAgg
		}
		tgt.Runs += r.Runs
		tgt.Steps += r.Steps
		tgt.Checks += r.Checks
		tgt.Nontrivial += r.Nontrivial
		tgt.HashXor ^= r.HashXor
		for k, v := range r.Stats {
			tgt.Stats[k] += v
		}
		for _, k := range r.CaseKeys {
			distinct[k] = true
		}
		for k, v := range r.Known {
			if e := agg.Known[k]; e != nil {
				e.Count += v.Count
			} else {
				agg.Known[k] = &knownHit{v.Count, v.Witness}
			}
		}
		for _, v := range r.Violations {
			v.hb = r.HB
			viols = append(viols, v)
		}
		if r.Trouble != "" {
			trouble = append(trouble, r.Trouble)
		}
		if len(agg.Samples) < 4 {
			agg.Samples = append(agg.Samples, r.Samples...)
		}
	}
	if len(agg.Samples) > 4 {
		agg.Samples = agg.Samples[:4]
	}

	// known findings: a class reported as known must be listed with status "known"
	exit := 0
	var lines []string
	knownClasses := map[string]finding{}
	for _, f := range findings {
		if f.Status == "known" && f.Property == id {
			knownClasses[f.Class] = f
		}
	}
	var kc []string
	for k := range agg.Known {
		kc = append(kc, k)
	}
	sort.Strings(kc)
	for _, k := range kc {
		if _, ok := knownClasses[k]; ok {
			lines = append(lines, fmt.Sprintf("KNOWN-FINDING: property=%s %s: %d occurrence(s), e.g. %s", id, k, agg.Known[k].Count, oneLine(agg.Known[k].Witness)))
		} else {
			trouble = append(trouble, "worker reported unlisted known class "+k)
		}
	}

	// violations: confirm by replay in a fresh process
	confirmed := 0
	sort.Slice(viols, func(i, j int) bool { return viols[i].Run < viols[j].Run })
	const maxReported = 3
	for vi, v := range viols {
		if vi >= maxReported {
			lines = append(lines, fmt.Sprintf("  (%d further violation(s) found by the workers are not listed)", len(viols)-maxReported))
			break
		}
		w := worker
		if v.hb {
			w = hbWorker
		}
		if v.Replay == "" {
			trouble = append(trouble, "violation without replay file: "+v.Detail)
			continue
		}
		final := filepath.Join(verifDir, "replays", filepath.Base(v.Replay))
		if err := copyFile(v.Replay, final); err != nil {
			trouble = append(trouble, err.Error())
			continue
		}
		code := runReplay(w, tmp, id, final, nil)
		carried := false
		if (code == 0 || code == 2) && !v.hb {
			// the run alone is clean (or, replayed from its minimised choices, takes another path than recorded): repeat it
			// after the runs its worker had executed before it in the same process. Every run builds its routers afresh, so
			// only memory the system under test keeps per process (package-level pools and caches) can carry over. Only a
			// carried replay that shows the violation again counts; otherwise the first exit code is reported as trouble.
			first := code
			if b, err := os.ReadFile(final); err == nil {
				var m map[string]any
				if json.Unmarshal(b, &m) == nil {
					m["carry"] = true
					if nb, err := json.MarshalIndent(m, "", " "); err == nil && os.WriteFile(final, nb, 0o644) == nil {
						if code = runReplay(w, tmp, id, final, nil); code == 1 {
							carried = true
						} else if first != 0 {
							code = first
						}
					}
				}
			}
		}
		if code == 1 {
			confirmed++
			exit = 1
			lines = append(lines, fmt.Sprintf("VIOLATION property=%s replay=%s", id, final))
			lines = append(lines, fmt.Sprintf("  class=%s run=%d choices=%d (shrunk from %d): %s", v.Class, v.Run, v.Shrunk, v.From, oneLine(v.Detail)))
			if carried {
				lines = append(lines, "  (occurs only after the preceding runs of the same process: the system under test carries state across Router instances in process-global memory; the replay file re-executes those runs first)")
			}
		} else {
			trouble = append(trouble, fmt.Sprintf("violation %s (run %d) did not replay (exit %d): harness determinism bug, not reported as a verdict; file %s", v.Class, v.Run, code, final))
		}
	}

	for _, l := range lines {
		fmt.Println(l)
	}
	wall := time.Since(start).Seconds()

	// evidence
	nd := len(distinct)
	cov := map[string]any{
		"evaluations":                    agg.Runs + hbAgg.Runs,
		"distinct_nontrivial":            nd,
		"rule":                           info.Rule,
		"samples":                        agg.Samples,
		"runs_plain":                     agg.Runs,
		"runs_hb_mode":                   hbAgg.Runs,
		"nontrivial_runs":                agg.Nontrivial + hbAgg.Nontrivial,
		"scheduler_steps":                agg.Steps + hbAgg.Steps,
		"oracle_evaluations":             agg.Checks + hbAgg.Checks,
		"runs_per_hour":                  int(float64(agg.Runs+hbAgg.Runs) / wall * 3600),
		"simulated_time":                 "not applicable: fox has no timers; progress is counted in scheduler steps / operations",
		"counters":                       agg.Stats,
		"counters_hb_mode":               hbAgg.Stats,
		"batch_hash":                     fmt.Sprintf("%016x", agg.HashXor),
		"batch_hash_hb":                  fmt.Sprintf("%016x", hbAgg.HashXor),
		"real_components":                info.Real,
		"stub_components":                info.Stub,
		"domain_restrictions":            info.Domain,
		"tolerances":                     info.Tolerances,
		"workers":                        workers,
		"known_findings_hit":             agg.Known,
		"violations_confirmed_by_replay": confirmed,
		"exhaustive":                     false,
	}
	if len(agg.Samples) == 0 {
		cov["samples"] = []any{"no sample produced"}
	}
	ev := map[string]any{
		"property_id": id,
		"tier":        tier,
		"seed":        seed,
		"level":       info.Level,
		"coverage":    cov,
		"assumptions": append([]string{"the reference model in /verif/harness/model states the documented behaviour correctly", "yield points inside fox are the verif hooks; code between two hooks is atomic to the plain-mode scheduler"}, info.Assumptions...),
		"wall_s":      wall,
		"violations":  confirmed,
	}
	if len(trouble) > 0 {
		ev["trouble"] = trouble
	}
	b, _ := json.MarshalIndent(ev, "", " ")
	if err := os.WriteFile(filepath.Join(verifDir, "evidence", id+".json"), b, 0o644); err != nil {
		trouble = append(trouble, err.Error())
	}
	if len(trouble) > 0 {
		for i, t := range trouble {
			if i >= 3 {
				fmt.Fprintf(os.Stderr, "TROUBLE: (%d more)\n", len(trouble)-3)
				break
			}
			fmt.Fprintln(os.Stderr, "TROUBLE:", oneLine(t))
		}
		if exit == 0 {
			exit = 2
		}
	}
	fmt.Printf("%s %s: %d runs (%d under the race detector), %d distinct non-trivial cases, %d known-finding classes, %d violation(s), %.1fs\n",
		id, tier, agg.Runs+hbAgg.Runs, hbAgg.Runs, nd, len(kc), confirmed, wall)
	os.RemoveAll(tmp)
	os.Exit(exit)
}

func oneLine(s string) string {
	s = strings.ReplaceAll(s, "\n", " ")
	if len(s) > 400 {
		s = s[:400] + "..."
	}
	return s
}

func copyFile(src, dst string) error {
	b, err := os.ReadFile(src)
	if err != nil {
		return err
	}
	return os.WriteFile(dst, b, 0o644)
}

func loadFindings() []finding {
	b, err := os.ReadFile(filepath.Join(verifDir, "known_findings.json"))
	if err != nil {
		return nil
	}
	var f struct {
		Findings []finding `json:"findings"`
	}
	if err := json.Unmarshal(b, &f); err != nil {
		die(2, "known_findings.json: %v", err)
	}
	return f.Findings
}

var workerLimit = 20 * time.Minute

var raceStackRe = regexp.MustCompile(`(?s)WARNING: DATA RACE.*?==================`)

// fanOut runs n simulated runs over the workers and returns their reports.
func fanOut(worker, tmp, id string, seed uint64, n, workers int, hb bool) ([]*report, []string) {
	if n <= 0 {
		return nil, nil
	}
	if workers < 1 {
		workers = 1
	}
	if workers > n {
		workers = n
	}
	per := (n + workers - 1) / workers
	var mu sync.Mutex
	var reports []*report
	var trouble []string
	var wg sync.WaitGroup
	for w := 0; w < workers; w++ {
		from := w * per
		cnt := per
		if from+cnt > n {
			cnt = n - from
		}
		if cnt <= 0 {
			continue
		}
		wg.Add(1)
		go func(w, from, cnt int) {
			defer wg.Done()
			tag := fmt.Sprintf("%s-%v-%d", id, hb, w)
			out := filepath.Join(tmp, "report-"+tag+".json")
			progress := filepath.Join(tmp, "progress-"+tag)
			args := []string{"-prop", id, "-seed", fmt.Sprint(seed), "-from", fmt.Sprint(from), "-n", fmt.Sprint(cnt), "-out", out, "-replaydir", tmp, "-progress", progress}
			if w == 0 {
				args = append(args, "-samples", "3")
			}
			cmd := exec.Command(worker, args...)
			cmd.Dir = tmp
			cmd.Env = append(os.Environ(), "VERIF_KNOWN="+filepath.Join(verifDir, "known_findings.json"))
			if hb {
				cmd.Env = append(cmd.Env, "GORACE=halt_on_error=0 log_path="+filepath.Join(tmp, "race-"+tag), "VERIF_RACELOG="+filepath.Join(tmp, "race-"+tag))
			}
			var stderr bytes.Buffer
			cmd.Stderr = &stderr
			cmd.Stdout = &stderr
			err := cmd.Start()
			if err == nil {
				// hard limit per worker: never hang the check
				done := make(chan error, 1)
				go func() { done <- cmd.Wait() }()
				select {
				case err = <-done:
				case <-time.After(workerLimit):
					cmd.Process.Kill()
					err = fmt.Errorf("worker exceeded the hard limit of %v and was killed: %v", workerLimit, <-done)
				}
			}
			mu.Lock()
			defer mu.Unlock()
			b, rerr := os.ReadFile(out)
			if rerr != nil {
				// the worker died (runtime fatal error, os.Exit, ...). If the crash happened inside fox it is a violation
				// of "never panics"; the run is identified by (seed, index) and replays from the PRNG.
				runIdx := lastProgress(progress)
				es := stderr.String()
				if runIdx >= 0 && strings.Contains(es, "github.com/tigerwill90/fox.") && (strings.Contains(es, "fatal error:") || strings.Contains(es, "panic:")) {
					file := filepath.Join(tmp, fmt.Sprintf("%s-seed%d-run%d-crash.json", id, seed, runIdx))
					rf := map[string]any{"property": id, "class": id + "/fatal", "detail": firstLines(es, 3), "seed": seed, "run": runIdx, "hb": hb, "prng": true, "choices": []int{}, "case": map[string]any{"stderr": firstLines(es, 40)}}
					jb, _ := json.MarshalIndent(rf, "", " ")
					os.WriteFile(file, jb, 0o644)
					reports = append(reports, &report{Prop: id, HB: hb, Stats: map[string]int{}, Violations: []violation{{Run: runIdx, Class: id + "/fatal", Detail: firstLines(es, 3), Replay: file}}})
					return
				}
				trouble = append(trouble, fmt.Sprintf("worker %s produced no report (%v): %s", tag, err, oneLine(stderr.String())))
				return
			}
			var r report
			if jerr := json.Unmarshal(b, &r); jerr != nil {
				trouble = append(trouble, fmt.Sprintf("worker %s: bad report: %v", tag, jerr))
				return
			}
			if err != nil && r.Trouble == "" {
				if ee, ok := err.(*exec.ExitError); !ok || (ee.ExitCode() != 0 && ee.ExitCode() != 66) {
					trouble = append(trouble, fmt.Sprintf("worker %s: %v: %s", tag, err, oneLine(stderr.String())))
				}
			}
			reports = append(reports, &r)
		}(w, from, cnt)
	}
	wg.Wait()
	return reports, trouble
}

func lastProgress(file string) int {
	b, err := os.ReadFile(file)
	if err != nil {
		return -1
	}
	lines := strings.Fields(string(b))
	if len(lines) == 0 {
		return -1
	}
	n, err := strconv.Atoi(lines[len(lines)-1])
	if err != nil {
		return -1
	}
	return n
}

func firstLines(s string, n int) string {
	ls := strings.Split(s, "\n")
	if len(ls) > n {
		ls = ls[:n]
	}
	return strings.Join(ls, "\n")
}

// runReplay executes a replay file in a fresh worker process and returns its exit code (1 = reproduced).
func runReplay(worker, tmp, id, file string, out *bytes.Buffer) int {
	cmd := exec.Command(worker, "-prop", id, "-replay", file)
	cmd.Dir = tmp
	cmd.Env = append(os.Environ(), "VERIF_KNOWN="+filepath.Join(verifDir, "known_findings.json"),
		"GORACE=halt_on_error=0 log_path="+filepath.Join(tmp, "race-replay"), "VERIF_RACELOG="+filepath.Join(tmp, "race-replay"))
	var buf bytes.Buffer
	cmd.Stdout, cmd.Stderr = &buf, &buf
	err := cmd.Run()
	if out != nil {
		out.Write(buf.Bytes())
	}
	if err == nil {
		return 0
	}
	if ee, ok := err.(*exec.ExitError); ok {
		if strings.HasSuffix(file, "-crash.json") && ee.ExitCode() == 2 && strings.Contains(buf.String(), "github.com/tigerwill90/fox.") &&
			(strings.Contains(buf.String(), "fatal error:") || strings.Contains(buf.String(), "panic:")) {
			return 1 // the process died again inside fox
		}
		return ee.ExitCode()
	}
	return 2
}

func doReplay(worker, tmp, id, file string) int {
	b, err := os.ReadFile(file)
	if err != nil {
		fmt.Fprintln(os.Stderr, err)
		return 2
	}
	var rf struct {
		HB bool `json:"hb"`
	}
	json.Unmarshal(b, &rf)
	w := worker
	if rf.HB {
		w = filepath.Join(tmp, "worker-race")
		if err := build(w, true); err != nil {
			fmt.Fprintln(os.Stderr, err)
			return 2
		}
	}
	abs, _ := filepath.Abs(file)
	var out bytes.Buffer
	code := runReplay(w, tmp, id, abs, &out)
	fmt.Print(out.String())
	if code == 1 {
		fmt.Printf("VIOLATION property=%s replay=%s\n", id, abs)
	}
	return code
}
